// Independent oracle over i128 / civil-calendar arithmetic, written from the property statements.
#![allow(dead_code)]

pub const NPC: i128 = 3_155_760_000_000_000_000; // 36525 days of 86400e9 ns
pub const MAX_T: i128 = 32768 * NPC;
pub const MIN_T: i128 = -32768 * NPC;
pub const DAY_NS: i128 = 86_400_000_000_000;

pub fn clamp(t: i128) -> i128 {
    if t > MAX_T {
        MAX_T
    } else if t < MIN_T {
        MIN_T
    } else {
        t
    }
}

/// canonical (centuries, nanoseconds) of an in-range total
pub fn parts_of(t: i128) -> (i16, u64) {
    let t = clamp(t);
    if t == MAX_T {
        (i16::MAX, NPC as u64)
    } else {
        (t.div_euclid(NPC) as i16, t.rem_euclid(NPC) as u64)
    }
}

pub fn show_parts(p: (i16, u64)) -> String {
    format!("({}, {})", p.0, p.1)
}

pub fn show_total(t: i128) -> String {
    show_parts(parts_of(t))
}

/// saturating product of mathematical integers, clamped to the duration range
pub fn clamp_mul(a: i128, b: i128) -> i128 {
    match a.checked_mul(b) {
        Some(v) => clamp(v),
        None => {
            if (a < 0) != (b < 0) {
                MIN_T
            } else {
                MAX_T
            }
        }
    }
}

pub fn unit_ns(u: hifitime::Unit) -> i128 {
    use hifitime::Unit::*;
    match u {
        Nanosecond => 1,
        Microsecond => 1_000,
        Millisecond => 1_000_000,
        Second => 1_000_000_000,
        Minute => 60_000_000_000,
        Hour => 3_600_000_000_000,
        Day => 86_400_000_000_000,
        Week => 604_800_000_000_000,
        Century => NPC,
    }
}

/// greatest multiple of a (> 0) not greater than t
pub fn floor_to(t: i128, a: i128) -> i128 {
    t - t.rem_euclid(a)
}

// ---- civil calendar (proleptic Gregorian) --------------------------------------------------------
pub fn is_leap(y: i128) -> bool {
    (y.rem_euclid(4) == 0 && y.rem_euclid(100) != 0) || y.rem_euclid(400) == 0
}

pub fn month_len(y: i128, m: i128) -> i128 {
    match m {
        1 | 3 | 5 | 7 | 8 | 10 | 12 => 31,
        4 | 6 | 9 | 11 => 30,
        2 => {
            if is_leap(y) {
                29
            } else {
                28
            }
        }
        _ => 0,
    }
}

/// days from 0001-01-01 to y-01-01 (closed form of the 4/100/400 rule)
fn days_before_year(y: i128) -> i128 {
    let p = y - 1;
    365 * p + p.div_euclid(4) - p.div_euclid(100) + p.div_euclid(400)
}

/// days since 1900-01-01 of the civil date y-m-d
pub fn day_index(y: i128, m: i128, d: i128) -> i128 {
    let mut n = days_before_year(y) - days_before_year(1900);
    let mut k = 1;
    while k < m {
        n += month_len(y, k);
        k += 1;
    }
    n + d - 1
}

/// inverse of day_index
pub fn civil_of_day(n: i128) -> (i128, i128, i128) {
    // estimate the year then correct
    let mut y = 1900 + n.div_euclid(366);
    while day_index(y + 1, 1, 1) <= n {
        y += 1;
    }
    while day_index(y, 1, 1) > n {
        y -= 1;
    }
    let mut rem = n - day_index(y, 1, 1);
    let mut m = 1;
    while rem >= month_len(y, m) {
        rem -= month_len(y, m);
        m += 1;
    }
    (y, m, rem + 1)
}

/// TAI elapsed nanoseconds (since 1900-01-01T00:00:00 TAI) of the zero of a uniform scale, from the civil dates of C05
pub fn scale_zero(ts: hifitime::TimeScale) -> Option<i128> {
    use hifitime::TimeScale::*;
    Some(match ts {
        TAI => 0,
        TT => -32_184_000_000,
        GPST | QZSST => day_index(1980, 1, 6) * DAY_NS + 19_000_000_000,
        GST => day_index(1999, 8, 22) * DAY_NS + 19_000_000_000,
        BDT => day_index(2006, 1, 1) * DAY_NS + 33_000_000_000,
        _ => return None,
    })
}

/// offset (ns, in the scale itself) between the scale's zero and 1900-01-01T00:00:00 of the same scale's calendar
pub fn greg_zero(ts: hifitime::TimeScale) -> i128 {
    use hifitime::TimeScale::*;
    match ts {
        TAI | TT | UTC => 0,
        GPST | QZSST => day_index(1980, 1, 6) * DAY_NS,
        GST => day_index(1999, 8, 22) * DAY_NS,
        BDT => day_index(2006, 1, 1) * DAY_NS,
        ET | TDB => day_index(2000, 1, 1) * DAY_NS + 43_200_000_000_000,
        _ => 0,
    }
}

/// dates (y, m, d) on which IERS inserted a leap second at 23:59:60
pub const LEAP_DAYS: [(i128, i128, i128); 27] = [
    (1972, 6, 30), (1972, 12, 31), (1973, 12, 31), (1974, 12, 31), (1975, 12, 31), (1976, 12, 31),
    (1977, 12, 31), (1978, 12, 31), (1979, 12, 31), (1981, 6, 30), (1982, 6, 30), (1983, 6, 30),
    (1985, 6, 30), (1987, 12, 31), (1989, 12, 31), (1990, 12, 31), (1992, 6, 30), (1993, 6, 30),
    (1994, 6, 30), (1995, 12, 31), (1997, 6, 30), (1998, 12, 31), (2005, 12, 31), (2008, 12, 31),
    (2012, 6, 30), (2015, 6, 30), (2016, 12, 31),
];

pub fn strict_valid(y: i128, mo: i128, d: i128, h: i128, mi: i128, s: i128, ns: i128) -> bool {
    (1..=12).contains(&mo) && d >= 1 && d <= month_len(y, mo) && (0..24).contains(&h) && (0..60).contains(&mi) && (0..1_000_000_000).contains(&ns)
        && ((0..60).contains(&s) || (s == 60 && h == 23 && mi == 59 && LEAP_DAYS.contains(&(y, mo, d))))
}
pub fn must_reject(y: i128, mo: i128, d: i128, h: i128, mi: i128, s: i128, ns: i128) -> bool {
    mo < 1 || mo > 12 || d < 1 || d > month_len(y, mo) || h > 24 || mi > 59 || s > 60 || ns > 1_000_000_000
        || (s == 60 && !(h == 23 && mi == 59 && (LEAP_DAYS.contains(&(y, mo, d)) || (y, mo, d) == (1971, 12, 31))))
}

/// IERS table as (UTC timestamp in seconds since 1900-01-01, TAI - UTC in seconds from then on), built from the civil dates
pub fn leap_table() -> Vec<(i128, i128)> {
    let mut t = vec![(day_index(1972, 1, 1) * 86_400, 10)];
    for (i, (y, m, d)) in LEAP_DAYS.iter().enumerate() {
        t.push(((day_index(*y, *m, *d) + 1) * 86_400, 11 + i as i128));
    }
    t
}
/// TAI - UTC (whole seconds) in force at a UTC count given in nanoseconds since 1900-01-01
pub fn offset_at_utc_ns(u: i128) -> i128 {
    let mut r = 0;
    for (ts, d) in leap_table() {
        if u >= ts * 1_000_000_000 {
            r = d;
        }
    }
    r
}
