// Table of replayable operations: each runs the real hifitime code and the oracle on the same inputs.
use crate::oracle::*;
use crate::{Arg, Op, Ty};
use hifitime::{Duration, TimeUnits, Unit};

fn always(_: &[Arg]) -> bool {
    true
}
fn show_d(d: Duration) -> String {
    show_parts(d.to_parts())
}
fn ord_s(o: core::cmp::Ordering) -> String {
    format!("{:?}", o)
}

pub static OPS: &[Op] = &[
    // ---------------------------------------------------------------- C02 representation / round trips
    Op { name: "from_parts", sig: &[Ty::I16, Ty::U64], pre: always, f: |a| {
        let (c, n) = (a[0].int() as i16, a[1].int() as u64);
        (show_d(Duration::from_parts(c, n)), show_total(c as i128 * NPC + n as i128))
    }},
    Op { name: "from_total_nanoseconds", sig: &[Ty::I128], pre: always, f: |a| {
        (show_d(Duration::from_total_nanoseconds(a[0].int())), show_total(clamp(a[0].int())))
    }},
    Op { name: "from_truncated_nanoseconds", sig: &[Ty::I64], pre: always, f: |a| {
        (show_d(Duration::from_truncated_nanoseconds(a[0].int() as i64)), show_total(a[0].int()))
    }},
    Op { name: "total_nanoseconds", sig: &[Ty::Dur], pre: always, f: |a| {
        (a[0].dur().total_nanoseconds().to_string(), a[0].total().to_string())
    }},
    Op { name: "total_roundtrip", sig: &[Ty::I128], pre: always, f: |a| {
        (Duration::from_total_nanoseconds(a[0].int()).total_nanoseconds().to_string(), clamp(a[0].int()).to_string())
    }},
    Op { name: "try_truncated_nanoseconds", sig: &[Ty::Dur], pre: always, f: |a| {
        let t = a[0].total();
        let r = a[0].dur().try_truncated_nanoseconds();
        // three sentences of C02: Ok(v) => v == t ; |t| <= 2 centuries => Ok ; t outside i64 => Err
        let verdict = match r {
            Ok(v) => {
                if v as i128 != t { format!("Ok({}) but count is {}", v, t) } else { "ok".to_string() }
            }
            Err(_) => {
                if t.abs() <= 2 * NPC { format!("Err for count {} within +/-2 centuries", t) } else { "ok".to_string() }
            }
        };
        (verdict, "ok".to_string())
    }},
    Op { name: "truncated_nanoseconds", sig: &[Ty::Dur], pre: always, f: |a| {
        let t = a[0].total();
        let v = a[0].dur().truncated_nanoseconds() as i128;
        let ok = if t < i64::MIN as i128 { v == i64::MIN as i128 }
            else if t > i64::MAX as i128 { v == i64::MAX as i128 }
            else if t.abs() <= 2 * NPC { v == t }
            else { v == t || v == i64::MIN as i128 || v == i64::MAX as i128 };
        (if ok { "ok".into() } else { format!("{} for count {}", v, t) }, "ok".into())
    }},
    Op { name: "unit_mul_i64", sig: &[Ty::Unit, Ty::I64], pre: always, f: |a| {
        (show_d(a[0].unit() * (a[1].int() as i64)), show_total(clamp_mul(a[1].int(), unit_ns(a[0].unit()))))
    }},
    Op { name: "i64_mul_unit", sig: &[Ty::I64, Ty::Unit], pre: always, f: |a| {
        (show_d((a[0].int() as i64) * a[1].unit()), show_total(clamp_mul(a[0].int(), unit_ns(a[1].unit()))))
    }},
    Op { name: "time_units_i64", sig: &[Ty::I64, Ty::Unit], pre: always, f: |a| {
        let q = a[0].int() as i64;
        let r = match a[1].unit() {
            Unit::Nanosecond => q.nanoseconds(), Unit::Microsecond => q.microseconds(), Unit::Millisecond => q.milliseconds(),
            Unit::Second => q.seconds(), Unit::Minute => q.minutes(), Unit::Hour => q.hours(), Unit::Day => q.days(),
            Unit::Week => q.weeks(), Unit::Century => q.centuries(),
        };
        (show_d(r), show_total(clamp_mul(a[0].int(), unit_ns(a[1].unit()))))
    }},
    // ---------------------------------------------------------------- C01 arithmetic
    Op { name: "add", sig: &[Ty::Dur, Ty::Dur], pre: always, f: |a| {
        (show_d(a[0].dur() + a[1].dur()), show_total(clamp(a[0].total() + a[1].total())))
    }},
    Op { name: "sub", sig: &[Ty::Dur, Ty::Dur], pre: always, f: |a| {
        (show_d(a[0].dur() - a[1].dur()), show_total(clamp(a[0].total() - a[1].total())))
    }},
    Op { name: "add_assign", sig: &[Ty::Dur, Ty::Dur], pre: always, f: |a| {
        let mut x = a[0].dur(); x += a[1].dur();
        (show_d(x), show_total(clamp(a[0].total() + a[1].total())))
    }},
    Op { name: "sub_assign", sig: &[Ty::Dur, Ty::Dur], pre: always, f: |a| {
        let mut x = a[0].dur(); x -= a[1].dur();
        (show_d(x), show_total(clamp(a[0].total() - a[1].total())))
    }},
    Op { name: "neg", sig: &[Ty::Dur], pre: always, f: |a| {
        (show_d(-a[0].dur()), show_total(clamp(-a[0].total())))
    }},
    Op { name: "abs", sig: &[Ty::Dur], pre: always, f: |a| {
        (show_d(a[0].dur().abs()), show_total(clamp(a[0].total().abs())))
    }},
    Op { name: "mul_i64", sig: &[Ty::Dur, Ty::I64], pre: always, f: |a| {
        (show_d(a[0].dur() * (a[1].int() as i64)), show_total(clamp_mul(a[0].total(), a[1].int())))
    }},
    Op { name: "i64_mul_dur", sig: &[Ty::I64, Ty::Dur], pre: always, f: |a| {
        (show_d((a[0].int() as i64) * a[1].dur()), show_total(clamp_mul(a[1].total(), a[0].int())))
    }},
    Op { name: "div_i64", sig: &[Ty::Dur, Ty::I64], pre: |a| a[1].int() != 0, f: |a| {
        // Rust's `/` on i128 truncates toward zero, as C01 requires
        (show_d(a[0].dur() / (a[1].int() as i64)), show_total(clamp(a[0].total() / a[1].int())))
    }},
    Op { name: "add_unit", sig: &[Ty::Dur, Ty::Unit], pre: always, f: |a| {
        (show_d(a[0].dur() + a[1].unit()), show_total(clamp(a[0].total() + unit_ns(a[1].unit()))))
    }},
    Op { name: "sub_unit", sig: &[Ty::Dur, Ty::Unit], pre: always, f: |a| {
        (show_d(a[0].dur() - a[1].unit()), show_total(clamp(a[0].total() - unit_ns(a[1].unit()))))
    }},
    Op { name: "add_assign_unit", sig: &[Ty::Dur, Ty::Unit], pre: always, f: |a| {
        let mut x = a[0].dur(); x += a[1].unit();
        (show_d(x), show_total(clamp(a[0].total() + unit_ns(a[1].unit()))))
    }},
    Op { name: "sub_assign_unit", sig: &[Ty::Dur, Ty::Unit], pre: always, f: |a| {
        let mut x = a[0].dur(); x -= a[1].unit();
        (show_d(x), show_total(clamp(a[0].total() - unit_ns(a[1].unit()))))
    }},
    // ---------------------------------------------------------------- C03 ordering / equality
    Op { name: "eq", sig: &[Ty::Dur, Ty::Dur], pre: always, f: |a| {
        let (x, y) = (a[0].total(), a[1].total());
        let r = a[0].dur() == a[1].dur();
        let ok = if x == y { r } else if r { x == -y && x.abs() <= NPC } else { true };
        (if ok { "ok".into() } else { format!("== is {} for counts {} and {}", r, x, y) }, "ok".into())
    }},
    Op { name: "cmp", sig: &[Ty::Dur, Ty::Dur], pre: always, f: |a| {
        (ord_s(a[0].dur().cmp(&a[1].dur())), ord_s(a[0].total().cmp(&a[1].total())))
    }},
    Op { name: "partial_cmp", sig: &[Ty::Dur, Ty::Dur], pre: always, f: |a| {
        let (x, y) = (a[0].dur(), a[1].dur());
        let got = format!("{:?} lt={} le={} gt={} ge={}", x.partial_cmp(&y), x < y, x <= y, x > y, x >= y);
        let (p, q) = (a[0].total(), a[1].total());
        (got, format!("{:?} lt={} le={} gt={} ge={}", Some(p.cmp(&q)), p < q, p <= q, p > q, p >= q))
    }},
    Op { name: "min", sig: &[Ty::Dur, Ty::Dur], pre: always, f: |a| {
        (show_d(a[0].dur().min(a[1].dur())), show_total(a[0].total().min(a[1].total())))
    }},
    Op { name: "max", sig: &[Ty::Dur, Ty::Dur], pre: always, f: |a| {
        (show_d(a[0].dur().max(a[1].dur())), show_total(a[0].total().max(a[1].total())))
    }},
    Op { name: "is_negative", sig: &[Ty::Dur], pre: always, f: |a| {
        (a[0].dur().is_negative().to_string(), (a[0].total() < 0).to_string())
    }},
    Op { name: "eq_unit", sig: &[Ty::Dur, Ty::Unit], pre: always, f: |a| {
        let (x, y) = (a[0].total(), unit_ns(a[1].unit()));
        let r = a[0].dur() == a[1].unit();
        let ok = if x == y { r } else if r { x == -y && x.abs() <= NPC } else { true };
        (if ok { "ok".into() } else { format!("== is {} for counts {} and {}", r, x, y) }, "ok".into())
    }},
    Op { name: "partial_cmp_unit", sig: &[Ty::Dur, Ty::Unit], pre: always, f: |a| {
        (format!("{:?}", a[0].dur().partial_cmp(&a[1].unit())), format!("{:?}", Some(a[0].total().cmp(&unit_ns(a[1].unit())))))
    }},
    Op { name: "add_monotone", sig: &[Ty::Dur, Ty::Dur], pre: |a| { let s = a[0].total() + a[1].total(); s >= MIN_T && s <= MAX_T }, f: |a| {
        (((a[0].dur() + a[1].dur()) > a[0].dur()).to_string(), (a[1].total() > 0).to_string())
    }},
    // ---------------------------------------------------------------- C14 floor / ceil / round
    Op { name: "floor", sig: &[Ty::Dur, Ty::Dur], pre: always, f: |a| {
        let (t, s) = (a[0].total(), a[1].total());
        let e = if s == 0 { 0 } else { clamp(floor_to(t, s.abs())) };
        (show_d(a[0].dur().floor(a[1].dur())), show_total(e))
    }},
    Op { name: "ceil", sig: &[Ty::Dur, Ty::Dur], pre: always, f: |a| {
        let (t, s) = (a[0].total(), a[1].total());
        let e = if s == 0 { 0 } else { clamp(clamp(floor_to(t, s.abs())) + s.abs()) };
        (show_d(a[0].dur().ceil(a[1].dur())), show_total(e))
    }},
    Op { name: "round", sig: &[Ty::Dur, Ty::Dur], pre: always, f: |a| {
        let (t, s) = (a[0].total(), a[1].total());
        let e = if s == 0 { 0 } else {
            let f = clamp(floor_to(t, s.abs()));
            let c = clamp(f + s.abs());
            if t - f < c - t { f } else { c }
        };
        (show_d(a[0].dur().round(a[1].dur())), show_total(e))
    }},
];
