// Table of replayable operations: each runs the real hifitime code and the oracle on the same inputs.
use crate::oracle::*;
use crate::{Arg, Op, Ty, SCALES};
use hifitime::{Duration, Epoch, TimeScale, TimeSeries, TimeUnits, Unit};

fn always(_: &[Arg]) -> bool {
    true
}
/// known finding D1: Duration::total_nanoseconds is wrong below -1 century; the falsifier searches outside that region
/// for the operations that go through it (so that what it reports is a NEW disagreement, not D1 again)
fn no_d1(a: &[Arg]) -> bool {
    a.iter().all(|x| match x { Arg::Dur(..) => x.total() >= -NPC, Arg::I(v) => *v >= -NPC, _ => true })
}
fn no_d1_approx(a: &[Arg]) -> bool {
    a[0].total() >= -NPC + 2 * DAY_NS
}
/// floor / ceil / round also read back the floored value: keep it outside the D1 region too
fn no_d1_snap(a: &[Arg]) -> bool {
    let (t, s) = (a[0].total(), a[a.len() - 1].total());
    no_d1(a) && (s == 0 || floor_to(t, s.abs()) >= -NPC)
}
fn show_d(d: Duration) -> String {
    show_parts(d.to_parts())
}
fn ord_s(o: core::cmp::Ordering) -> String {
    format!("{:?}", o)
}

pub static OPS: &[Op] = &[
    // ---------------------------------------------------------------- C02 representation / round trips
    Op { name: "from_parts", sig: &[Ty::I16, Ty::U64], pre: always, f: |a| {
        let (c, n) = (a[0].int() as i16, a[1].int() as u64);
        (show_d(Duration::from_parts(c, n)), show_total(c as i128 * NPC + n as i128))
    }},
    Op { name: "from_total_nanoseconds", sig: &[Ty::I128], pre: always, f: |a| {
        (show_d(Duration::from_total_nanoseconds(a[0].int())), show_total(clamp(a[0].int())))
    }},
    Op { name: "from_truncated_nanoseconds", sig: &[Ty::I64], pre: always, f: |a| {
        (show_d(Duration::from_truncated_nanoseconds(a[0].int() as i64)), show_total(a[0].int()))
    }},
    Op { name: "total_nanoseconds", sig: &[Ty::Dur], pre: no_d1, f: |a| {
        (a[0].dur().total_nanoseconds().to_string(), a[0].total().to_string())
    }},
    Op { name: "total_roundtrip", sig: &[Ty::I128], pre: no_d1, f: |a| {
        (Duration::from_total_nanoseconds(a[0].int()).total_nanoseconds().to_string(), clamp(a[0].int()).to_string())
    }},
    Op { name: "try_truncated_nanoseconds", sig: &[Ty::Dur], pre: always, f: |a| {
        let t = a[0].total();
        let r = a[0].dur().try_truncated_nanoseconds();
        // three sentences of C02: Ok(v) => v == t ; |t| <= 2 centuries => Ok ; t outside i64 => Err
        let verdict = match r {
            Ok(v) => {
                if v as i128 != t { format!("Ok({}) but count is {}", v, t) } else { "ok".to_string() }
            }
            Err(_) => {
                if t.abs() <= 2 * NPC { format!("Err for count {} within +/-2 centuries", t) } else { "ok".to_string() }
            }
        };
        (verdict, "ok".to_string())
    }},
    Op { name: "truncated_nanoseconds", sig: &[Ty::Dur], pre: always, f: |a| {
        let t = a[0].total();
        let v = a[0].dur().truncated_nanoseconds() as i128;
        let ok = if t < i64::MIN as i128 { v == i64::MIN as i128 }
            else if t > i64::MAX as i128 { v == i64::MAX as i128 }
            else if t.abs() <= 2 * NPC { v == t }
            else { v == t || v == i64::MIN as i128 || v == i64::MAX as i128 };
        (if ok { "ok".into() } else { format!("{} for count {}", v, t) }, "ok".into())
    }},
    Op { name: "unit_mul_i64", sig: &[Ty::Unit, Ty::I64], pre: always, f: |a| {
        (show_d(a[0].unit() * (a[1].int() as i64)), show_total(clamp_mul(a[1].int(), unit_ns(a[0].unit()))))
    }},
    Op { name: "i64_mul_unit", sig: &[Ty::I64, Ty::Unit], pre: always, f: |a| {
        (show_d((a[0].int() as i64) * a[1].unit()), show_total(clamp_mul(a[0].int(), unit_ns(a[1].unit()))))
    }},
    Op { name: "time_units_i64", sig: &[Ty::I64, Ty::Unit], pre: always, f: |a| {
        let q = a[0].int() as i64;
        let r = match a[1].unit() {
            Unit::Nanosecond => q.nanoseconds(), Unit::Microsecond => q.microseconds(), Unit::Millisecond => q.milliseconds(),
            Unit::Second => q.seconds(), Unit::Minute => q.minutes(), Unit::Hour => q.hours(), Unit::Day => q.days(),
            Unit::Week => q.weeks(), Unit::Century => q.centuries(),
        };
        (show_d(r), show_total(clamp_mul(a[0].int(), unit_ns(a[1].unit()))))
    }},
    // ---------------------------------------------------------------- C18 float interop (Unit x f64), bit patterns
    Op { name: "unit_mul_f64", sig: &[Ty::Unit, Ty::U64], pre: always, f: |a| {
        // a third raw bit patterns, a third integers scaled by a power of two (reaches both cast paths and the bounds), a third
        // short decimals
        let b = a[1].int() as u64;
        let q = match b % 3 {
            0 => f64::from_bits(b),
            1 => ((b >> 8) as i64 as f64) * (2.0f64).powi((b & 0xff) as i32 - 150),
            _ => (((b >> 8) % 2_000_001) as f64 - 1_000_000.0) / 1000.0,
        };
        let factor = unit_ns(a[0].unit()) as f64;
        let p = q * factor;
        (show_d(a[0].unit() * q), show_total(clamp(p as i128)))
    }},
    // raw bit pattern of the factor (used to replay Kani's counterexamples)
    Op { name: "unit_mul_f64_bits", sig: &[Ty::Unit, Ty::U64], pre: always, f: |a| {
        let q = f64::from_bits(a[1].int() as u64);
        let factor = unit_ns(a[0].unit()) as f64;
        let p = q * factor;
        (show_d(a[0].unit() * q), show_total(clamp(p as i128)))
    }},
    Op { name: "compose", sig: &[Ty::Bool, Ty::U64, Ty::U64, Ty::U64, Ty::U64, Ty::U64, Ty::U64, Ty::U64], pre: always, f: |a| {
        let sign: i8 = if a[0].boolean() { 1 } else { -1 };
        let v: Vec<u64> = (1..8).map(|i| a[i].int() as u64).collect();
        let w = [DAY_NS, 3_600_000_000_000, 60_000_000_000, 1_000_000_000, 1_000_000, 1_000, 1];
        let m: i128 = v.iter().zip(w.iter()).map(|(x, y)| *x as i128 * *y).sum();
        (show_d(Duration::compose(sign, v[0], v[1], v[2], v[3], v[4], v[5], v[6])), show_total(clamp(if sign < 0 { -m } else { m })))
    }},
    // ---------------------------------------------------------------- C01 arithmetic
    Op { name: "add", sig: &[Ty::Dur, Ty::Dur], pre: always, f: |a| {
        (show_d(a[0].dur() + a[1].dur()), show_total(clamp(a[0].total() + a[1].total())))
    }},
    Op { name: "sub", sig: &[Ty::Dur, Ty::Dur], pre: always, f: |a| {
        (show_d(a[0].dur() - a[1].dur()), show_total(clamp(a[0].total() - a[1].total())))
    }},
    Op { name: "add_assign", sig: &[Ty::Dur, Ty::Dur], pre: always, f: |a| {
        let mut x = a[0].dur(); x += a[1].dur();
        (show_d(x), show_total(clamp(a[0].total() + a[1].total())))
    }},
    Op { name: "sub_assign", sig: &[Ty::Dur, Ty::Dur], pre: always, f: |a| {
        let mut x = a[0].dur(); x -= a[1].dur();
        (show_d(x), show_total(clamp(a[0].total() - a[1].total())))
    }},
    Op { name: "neg", sig: &[Ty::Dur], pre: always, f: |a| {
        (show_d(-a[0].dur()), show_total(clamp(-a[0].total())))
    }},
    Op { name: "abs", sig: &[Ty::Dur], pre: always, f: |a| {
        (show_d(a[0].dur().abs()), show_total(clamp(a[0].total().abs())))
    }},
    Op { name: "mul_i64", sig: &[Ty::Dur, Ty::I64], pre: no_d1, f: |a| {
        (show_d(a[0].dur() * (a[1].int() as i64)), show_total(clamp_mul(a[0].total(), a[1].int())))
    }},
    Op { name: "i64_mul_dur", sig: &[Ty::I64, Ty::Dur], pre: no_d1, f: |a| {
        (show_d((a[0].int() as i64) * a[1].dur()), show_total(clamp_mul(a[1].total(), a[0].int())))
    }},
    Op { name: "div_i64", sig: &[Ty::Dur, Ty::I64], pre: |a| a[1].int() != 0 && no_d1(a), f: |a| {
        // Rust's `/` on i128 truncates toward zero, as C01 requires
        (show_d(a[0].dur() / (a[1].int() as i64)), show_total(clamp(a[0].total() / a[1].int())))
    }},
    Op { name: "add_unit", sig: &[Ty::Dur, Ty::Unit], pre: always, f: |a| {
        (show_d(a[0].dur() + a[1].unit()), show_total(clamp(a[0].total() + unit_ns(a[1].unit()))))
    }},
    Op { name: "sub_unit", sig: &[Ty::Dur, Ty::Unit], pre: always, f: |a| {
        (show_d(a[0].dur() - a[1].unit()), show_total(clamp(a[0].total() - unit_ns(a[1].unit()))))
    }},
    Op { name: "add_assign_unit", sig: &[Ty::Dur, Ty::Unit], pre: always, f: |a| {
        let mut x = a[0].dur(); x += a[1].unit();
        (show_d(x), show_total(clamp(a[0].total() + unit_ns(a[1].unit()))))
    }},
    Op { name: "sub_assign_unit", sig: &[Ty::Dur, Ty::Unit], pre: always, f: |a| {
        let mut x = a[0].dur(); x -= a[1].unit();
        (show_d(x), show_total(clamp(a[0].total() - unit_ns(a[1].unit()))))
    }},
    // ---------------------------------------------------------------- C03 ordering / equality
    Op { name: "eq", sig: &[Ty::Dur, Ty::Dur], pre: always, f: |a| {
        let (x, y) = (a[0].total(), a[1].total());
        let r = a[0].dur() == a[1].dur();
        let ok = if x == y { r } else if r { x == -y && x.abs() <= NPC } else { true };
        let ne = a[0].dur() != a[1].dur();
        (if !ok { format!("== is {} for counts {} and {}", r, x, y) } else if ne == r { format!("!= is {} although == is {} for counts {} and {}", ne, r, x, y) } else { "ok".into() }, "ok".into())
    }},
    Op { name: "cmp", sig: &[Ty::Dur, Ty::Dur], pre: always, f: |a| {
        (ord_s(a[0].dur().cmp(&a[1].dur())), ord_s(a[0].total().cmp(&a[1].total())))
    }},
    Op { name: "partial_cmp", sig: &[Ty::Dur, Ty::Dur], pre: always, f: |a| {
        let (x, y) = (a[0].dur(), a[1].dur());
        let got = format!("{:?} lt={} le={} gt={} ge={}", x.partial_cmp(&y), x < y, x <= y, x > y, x >= y);
        let (p, q) = (a[0].total(), a[1].total());
        (got, format!("{:?} lt={} le={} gt={} ge={}", Some(p.cmp(&q)), p < q, p <= q, p > q, p >= q))
    }},
    Op { name: "min", sig: &[Ty::Dur, Ty::Dur], pre: always, f: |a| {
        (show_d(a[0].dur().min(a[1].dur())), show_total(a[0].total().min(a[1].total())))
    }},
    Op { name: "max", sig: &[Ty::Dur, Ty::Dur], pre: always, f: |a| {
        (show_d(a[0].dur().max(a[1].dur())), show_total(a[0].total().max(a[1].total())))
    }},
    Op { name: "is_negative", sig: &[Ty::Dur], pre: always, f: |a| {
        (a[0].dur().is_negative().to_string(), (a[0].total() < 0).to_string())
    }},
    Op { name: "eq_unit", sig: &[Ty::Dur, Ty::Unit], pre: always, f: |a| {
        let (x, y) = (a[0].total(), unit_ns(a[1].unit()));
        let r = a[0].dur() == a[1].unit();
        let ok = if x == y { r } else if r { x == -y && x.abs() <= NPC } else { true };
        let ne = a[0].dur() != a[1].dur();
        (if !ok { format!("== is {} for counts {} and {}", r, x, y) } else if ne == r { format!("!= is {} although == is {} for counts {} and {}", ne, r, x, y) } else { "ok".into() }, "ok".into())
    }},
    Op { name: "partial_cmp_unit", sig: &[Ty::Dur, Ty::Unit], pre: always, f: |a| {
        // the given duration, and the durations at and next to plus / minus one unit
        let u = a[1].unit();
        let w = unit_ns(u);
        let ts = [clamp(a[0].total()), w, -w, w + 1, w - 1, -w + 1, -w - 1, 0];
        let got: Vec<String> = ts.iter().map(|t| { let d = Duration::from_total_nanoseconds(*t); format!("{:?} {} {} {}", d.partial_cmp(&u), d < u, d >= u, d == u) }).collect();
        // `==` between a duration and its exact negation within one century of zero is documented (allowed, not required)
        let want: Vec<String> = ts.iter().map(|t| { let d = Duration::from_total_nanoseconds(*t);
            let eq = if *t == w { true } else if *t == -w && w <= NPC { d == u } else { false };
            format!("{:?} {} {} {}", Some(t.cmp(&w)), *t < w, *t >= w, eq) }).collect();
        (got.join(" | "), want.join(" | "))
    }},
    Op { name: "unit_add_sub", sig: &[Ty::Unit, Ty::Unit], pre: always, f: |a| {
        let (x, y) = (a[0].unit(), a[1].unit());
        (format!("{} {}", show_d(x + y), show_d(x - y)), format!("{} {}", show_total(unit_ns(x) + unit_ns(y)), show_total(unit_ns(x) - unit_ns(y))))
    }},
    Op { name: "add_monotone", sig: &[Ty::Dur, Ty::Dur], pre: |a| { let s = a[0].total() + a[1].total(); s >= MIN_T && s <= MAX_T }, f: |a| {
        (((a[0].dur() + a[1].dur()) > a[0].dur()).to_string(), (a[1].total() > 0).to_string())
    }},
    // ---------------------------------------------------------------- C11 decomposition
    Op { name: "decompose", sig: &[Ty::Dur], pre: always, f: |a| {
        let t = a[0].total();
        let (sign, d, h, mi, s, ms, us, ns) = a[0].dur().decompose();
        let sum = d as i128 * DAY_NS + h as i128 * 3_600_000_000_000 + mi as i128 * 60_000_000_000 + s as i128 * 1_000_000_000 + ms as i128 * 1_000_000 + us as i128 * 1_000 + ns as i128;
        let ok = h < 24 && mi < 60 && s < 60 && ms < 1000 && us < 1000 && ns < 1000 && sum == t.abs() && ((sign == -1) == (t < 0)) && (-1..=1).contains(&sign);
        let e = Epoch::from_duration(a[0].dur(), TimeScale::TAI);
        let acc = (e.hours(), e.minutes(), e.seconds(), e.milliseconds(), e.microseconds(), e.nanoseconds()) == (h, mi, s, ms, us, ns);
        (if ok && acc { "ok".to_string() } else { format!("({}, {} d {} h {} min {} s {} ms {} us {} ns) for count {} accessors_agree={}", sign, d, h, mi, s, ms, us, ns, t, acc) }, "ok".to_string())
    }},
    Op { name: "approx", sig: &[Ty::Dur], pre: no_d1_approx, f: |a| {
        let t = a[0].total();
        let m = t.abs();
        let unit = [DAY_NS, 3_600_000_000_000, 60_000_000_000, 1_000_000_000, 1_000_000, 1_000, 1].into_iter().find(|u| m >= *u).unwrap_or(1);
        let f = clamp(floor_to(t, unit));
        let c = clamp(f + unit);
        (show_d(a[0].dur().approx()), show_total(if t - f < c - t { f } else { c }))
    }},
    // ---------------------------------------------------------------- C14 floor / ceil / round
    Op { name: "floor", sig: &[Ty::Dur, Ty::Dur], pre: no_d1_snap, f: |a| {
        let (t, s) = (a[0].total(), a[1].total());
        let e = if s == 0 { 0 } else { clamp(floor_to(t, s.abs())) };
        (show_d(a[0].dur().floor(a[1].dur())), show_total(e))
    }},
    Op { name: "ceil", sig: &[Ty::Dur, Ty::Dur], pre: no_d1_snap, f: |a| {
        let (t, s) = (a[0].total(), a[1].total());
        let e = if s == 0 { 0 } else { clamp(clamp(floor_to(t, s.abs())) + s.abs()) };
        (show_d(a[0].dur().ceil(a[1].dur())), show_total(e))
    }},
    Op { name: "round", sig: &[Ty::Dur, Ty::Dur], pre: no_d1_snap, f: |a| {
        let (t, s) = (a[0].total(), a[1].total());
        let e = if s == 0 { 0 } else {
            let f = clamp(floor_to(t, s.abs()));
            let c = clamp(f + s.abs());
            if t - f < c - t { f } else { c }
        };
        (show_d(a[0].dur().round(a[1].dur())), show_total(e))
    }},
    // ---------------------------------------------------------------- C05 uniform time scales
    Op { name: "to_time_scale", sig: &[Ty::Dur, Ty::UTs, Ty::UTs], pre: |a| conv_ok(a[0].total(), a[1].ts(), a[2].ts()), f: |a| {
        let e = Epoch::from_duration(a[0].dur(), a[1].ts());
        let r = e.to_time_scale(a[2].ts());
        let exp = a[0].total() + scale_zero(a[1].ts()).unwrap() - scale_zero(a[2].ts()).unwrap();
        // the secondary entry point to_duration_in_time_scale must give the same count (seed C05-I)
        (format!("{} {:?} {}", show_d(r.duration), r.time_scale, show_d(e.to_duration_in_time_scale(a[2].ts()))), format!("{} {:?} {}", show_total(exp), a[2].ts(), show_total(exp)))
    }},
    Op { name: "to_duration_accessors", sig: &[Ty::Dur, Ty::UTs], pre: |a| SCALES[..6].iter().all(|t| conv_ok(a[0].total(), a[1].ts(), *t)), f: |a| {
        let e = Epoch::from_duration(a[0].dur(), a[1].ts());
        let tai = a[0].total() + scale_zero(a[1].ts()).unwrap();
        let got = format!("{} {} {} {} {} {} {}", show_d(e.to_tai_duration()), show_d(e.to_tt_duration()), show_d(e.to_gpst_duration()),
            show_d(e.to_gst_duration()), show_d(e.to_bdt_duration()), show_d(e.to_qzsst_duration()), show_d(e.to_duration_since_j1900()));
        let z = |t: TimeScale| show_total(tai - scale_zero(t).unwrap());
        (got, format!("{} {} {} {} {} {} {}", z(TimeScale::TAI), z(TimeScale::TT), z(TimeScale::GPST), z(TimeScale::GST), z(TimeScale::BDT), z(TimeScale::QZSST), z(TimeScale::TAI)))
    }},
    Op { name: "conv_roundtrip", sig: &[Ty::Dur, Ty::UTs, Ty::UTs], pre: |a| conv_ok(a[0].total(), a[1].ts(), a[2].ts()), f: |a| {
        let e = Epoch::from_duration(a[0].dur(), a[1].ts());
        let r = e.to_time_scale(a[2].ts()).to_time_scale(a[1].ts());
        (format!("{} {:?}", show_d(r.duration), r.time_scale), format!("{} {:?}", show_total(a[0].total()), a[1].ts()))
    }},
    Op { name: "ref_epochs", sig: &[Ty::UTs], pre: always, f: |a| {
        let ts = a[0].ts();
        let r = ts.reference_epoch();
        (format!("{} {}", show_d(r.duration), show_d(r.to_tai_duration())), format!("(0, 0) {}", show_total(scale_zero(ts).unwrap())))
    }},
    // ---------------------------------------------------------------- C04 epoch arithmetic
    Op { name: "epoch_add", sig: &[Ty::Dur, Ty::Ts, Ty::Dur], pre: always, f: |a| {
        let e = Epoch::from_duration(a[0].dur(), a[1].ts());
        let r = e + a[2].dur();
        let mut r2 = e; r2 += a[2].dur();
        (format!("{} {:?} {}", show_d(r.duration), r.time_scale, show_d(r2.duration)), format!("{} {:?} {}", show_total(clamp(a[0].total() + a[2].total())), a[1].ts(), show_total(clamp(a[0].total() + a[2].total()))))
    }},
    Op { name: "epoch_sub_dur", sig: &[Ty::Dur, Ty::Ts, Ty::Dur], pre: always, f: |a| {
        let e = Epoch::from_duration(a[0].dur(), a[1].ts());
        let r = e - a[2].dur();
        let mut r2 = e; r2 -= a[2].dur();
        (format!("{} {:?} {}", show_d(r.duration), r.time_scale, show_d(r2.duration)), format!("{} {:?} {}", show_total(clamp(a[0].total() - a[2].total())), a[1].ts(), show_total(clamp(a[0].total() - a[2].total()))))
    }},
    Op { name: "epoch_add_unit", sig: &[Ty::Dur, Ty::Ts, Ty::Unit], pre: always, f: |a| {
        let e = Epoch::from_duration(a[0].dur(), a[1].ts());
        let (r, q) = (e + a[2].unit(), e - a[2].unit());
        let mut r2 = e; r2 += a[2].unit();
        let mut q2 = e; q2 -= a[2].unit();
        let (p, m) = (clamp(a[0].total() + unit_ns(a[2].unit())), clamp(a[0].total() - unit_ns(a[2].unit())));
        (format!("{} {} {} {} {:?} {:?}", show_d(r.duration), show_d(q.duration), show_d(r2.duration), show_d(q2.duration), r.time_scale, q.time_scale),
         format!("{} {} {} {} {:?} {:?}", show_total(p), show_total(m), show_total(p), show_total(m), a[1].ts(), a[1].ts()))
    }},
    Op { name: "epoch_sub_epoch", sig: &[Ty::Dur, Ty::UTs, Ty::Dur, Ty::UTs], pre: |a| conv_ok(a[2].total(), a[3].ts(), a[1].ts()), f: |a| {
        let e = Epoch::from_duration(a[0].dur(), a[1].ts());
        let f = Epoch::from_duration(a[2].dur(), a[3].ts());
        let other_in_self = a[2].total() + scale_zero(a[3].ts()).unwrap() - scale_zero(a[1].ts()).unwrap();
        (show_d(e - f), show_total(clamp(a[0].total() - other_in_self)))
    }},
    Op { name: "epoch_add_f64", sig: &[Ty::Dur, Ty::Ts, Ty::I32], pre: |a| a[0].total().abs() < 32_000 * NPC && a[2].int().abs() <= 9_007_199, f: |a| {
        // float seconds that are an exact integer (ns count below 2^53)
        let e = Epoch::from_duration(a[0].dur(), a[1].ts());
        let r = e + (a[2].int() as f64);
        (format!("{} {:?}", show_d(r.duration), r.time_scale), format!("{} {:?}", show_total(a[0].total() + a[2].int() * 1_000_000_000), a[1].ts()))
    }},
    // ---------------------------------------------------------------- C12 epoch comparisons
    Op { name: "epoch_cmp", sig: &[Ty::Dur, Ty::UTs, Ty::Dur, Ty::UTs], pre: |a| conv_ok(a[2].total(), a[3].ts(), a[1].ts()) && conv_ok(a[0].total(), a[1].ts(), a[3].ts()), f: |a| {
        let e = Epoch::from_duration(a[0].dur(), a[1].ts());
        let f = Epoch::from_duration(a[2].dur(), a[3].ts());
        let (x, y) = (a[0].total() + scale_zero(a[1].ts()).unwrap(), a[2].total() + scale_zero(a[3].ts()).unwrap());
        (format!("{:?} {:?} eq={} eq'={} lt={} gt={} min={} max={} ne={} le={} ge={}", e.cmp(&f), e.partial_cmp(&f), e == f, f == e, e < f, e > f, e.min(f) == (if x <= y { e } else { f }), e.max(f) == (if x >= y { e } else { f }), e != f, e <= f, e >= f),
         format!("{:?} {:?} eq={} eq'={} lt={} gt={} min=true max=true ne={} le={} ge={}", x.cmp(&y), Some(x.cmp(&y)), x == y, x == y, x < y, x > y, x != y, x <= y, x >= y))
    }},
    Op { name: "epoch_cmp_same_scale", sig: &[Ty::Dur, Ty::Dur, Ty::Ts], pre: always, f: |a| {
        let e = Epoch::from_duration(a[0].dur(), a[2].ts());
        let f = Epoch::from_duration(a[1].dur(), a[2].ts());
        let (x, y) = (a[0].total(), a[1].total());
        (format!("{:?} eq={} lt={}", e.cmp(&f), e == f, e < f), format!("{:?} eq={} lt={}", x.cmp(&y), x == y, x < y))
    }},
    Op { name: "epoch_eq_symmetric", sig: &[Ty::Dur, Ty::UTs, Ty::UTs], pre: |a| {
        // pairs symmetric about the reference epoch of the left operand's scale, the right one given in another scale
        let x = a[0].total();
        x.abs() < 1000 * NPC && conv_ok(-x, a[1].ts(), a[2].ts())
    }, f: |a| {
        let x = a[0].total();
        let e = Epoch::from_duration(a[0].dur(), a[1].ts());
        let other_total = -x + scale_zero(a[1].ts()).unwrap() - scale_zero(a[2].ts()).unwrap();
        let (c, n) = parts_of(other_total);
        let f = Epoch::from_duration(Duration::from_parts(c, n), a[2].ts());
        (format!("eq={} eq'={} ne={} cmp={:?}", e == f, f == e, e != f, e.cmp(&f)), format!("eq={} eq'={} ne={} cmp={:?}", x == 0, x == 0, x != 0, x.cmp(&-x)))
    }},
    Op { name: "epoch_cmp_utc", sig: &[Ty::Dur, Ty::Dur, Ty::Bool], pre: |a| a[0].total().abs() < 1000 * NPC && a[1].total().abs() < 1000 * NPC, f: |a| {
        // one operand in UTC (count a[0]), the other in TAI (count a[1]); both operand orders.  == and cmp answer the
        // chronological question about the instants; with the UTC epoch on the left, cmp is only specified when the TAI
        // instant is outside an inserted second (it has no UTC count there); == is specified everywhere
        let u = Epoch::from_duration(a[0].dur(), TimeScale::UTC);
        let iu = a[0].total() + offset_at_utc_ns(a[0].total()) * 1_000_000_000;
        // the TAI operand lies within +/- 2 s of the UTC operand's instant (second argument used as a pseudo-random offset)
        let sel = a[1].total().rem_euclid(3);
        let it = if sel == 0 {
            iu + [-1_000_000_000i128, 1_000_000_000, 0, 1, -1, 10_000_000_000, -10_000_000_000, 500_000_000][(a[1].total().rem_euclid(24) / 3) as usize]
        } else {
            iu + (a[1].total().rem_euclid(4_000_000_001) - 2_000_000_000)
        };
        let (tc, tn) = parts_of(it);
        let t = Epoch::from_duration(Duration::from_parts(tc, tn), TimeScale::TAI);
        let s = 1_000_000_000;
        let inside = leap_table().iter().enumerate().any(|(i, (ts, d))| { let prev = if i == 0 { 0 } else { d - 1 }; it >= (ts + prev) * s && it < (ts + d) * s });
        if a[2].boolean() {
            let cmp_s = if inside { "unspecified".to_string() } else { format!("{:?}", u.cmp(&t)) };
            let cmp_e = if inside { "unspecified".to_string() } else { format!("{:?}", iu.cmp(&it)) };
            (format!("eq={} ne={} cmp={}", u == t, u != t, cmp_s), format!("eq={} ne={} cmp={}", iu == it, iu != it, cmp_e))
        } else {
            (format!("eq={} ne={} cmp={:?} pcmp={:?}", t == u, t != u, t.cmp(&u), t.partial_cmp(&u)), format!("eq={} ne={} cmp={:?} pcmp={:?}", it == iu, it != iu, it.cmp(&iu), Some(it.cmp(&iu))))
        }
    }},
    Op { name: "epoch_sub_epoch_utc", sig: &[Ty::Dur, Ty::Dur, Ty::UTs], pre: |a| a[0].total().abs() < 1000 * NPC, f: |a| {
        // Epoch - Epoch with a UTC operand: the difference is measured in the LEFT operand's scale after re-expressing the right
        // operand in it (seed C04-J: a UTC left operand measured in the right operand's scale is off by the leap seconds
        // inserted between the two instants).  The other operand lies within +/- 100 s of the UTC operand's instant.
        let s = 1_000_000_000i128;
        let u = Epoch::from_duration(a[0].dur(), TimeScale::UTC);
        let iu = a[0].total() + offset_at_utc_ns(a[0].total()) * s;
        let sel = a[1].total().rem_euclid(3);
        let it = if sel == 0 {
            iu + [-20 * s, 20 * s, -s, s, 40 * s, -40 * s, 0, 1][(a[1].total().rem_euclid(24) / 3) as usize]
        } else {
            iu + (a[1].total().rem_euclid(200 * s + 1) - 100 * s)
        };
        let tab = leap_table();
        let inside = tab.iter().enumerate().any(|(i, (ts, d))| { let prev = if i == 0 { 0 } else { d - 1 }; it >= (ts + prev) * s && it < (ts + d) * s });
        let zero = scale_zero(a[2].ts()).unwrap();
        let (fc, fnn) = parts_of(it - zero);
        let f = Epoch::from_duration(Duration::from_parts(fc, fnn), a[2].ts());
        // UTC count of the instant `it`: the unique v with v + offset(v) == it (none inside an inserted second)
        let mut v = it;
        for (ts, d) in tab.iter().rev() { if it - d * s >= ts * s { v = it - d * s; break; } }
        let left_utc = if inside { "unspecified".to_string() } else { show_d(u - f) };
        let left_utc_e = if inside { "unspecified".to_string() } else { show_total(a[0].total() - v) };
        (format!("{} {}", left_utc, show_d(f - u)), format!("{} {}", left_utc_e, show_total(it - iu)))
    }},
    // ---------------------------------------------------------------- C14 epoch snapping
    Op { name: "epoch_floor_ceil_round", sig: &[Ty::Dur, Ty::Ts, Ty::Dur], pre: no_d1_snap, f: |a| {
        let e = Epoch::from_duration(a[0].dur(), a[1].ts());
        let (t, s) = (a[0].total(), a[2].total());
        let (fl, ce, ro) = (e.floor(a[2].dur()), e.ceil(a[2].dur()), e.round(a[2].dur()));
        let exp = if s == 0 { (0, 0, 0) } else {
            let f = clamp(floor_to(t, s.abs())); let c = clamp(f + s.abs());
            (f, c, if t - f < c - t { f } else { c })
        };
        (format!("{} {} {} {:?} {:?} {:?}", show_d(fl.duration), show_d(ce.duration), show_d(ro.duration), fl.time_scale, ce.time_scale, ro.time_scale),
         format!("{} {} {} {:?} {:?} {:?}", show_total(exp.0), show_total(exp.1), show_total(exp.2), a[1].ts(), a[1].ts(), a[1].ts()))
    }},
    // ---------------------------------------------------------------- C20 GNSS counters
    Op { name: "from_time_of_week", sig: &[Ty::U32, Ty::U64, Ty::Ts], pre: always, f: |a| {
        let r = Epoch::from_time_of_week(a[0].int() as u32, a[1].int() as u64, a[2].ts());
        let u = Epoch::from_time_of_week_utc(a[0].int() as u32, a[1].int() as u64);
        let exp = show_total(clamp(a[0].int() * 7 * DAY_NS + a[1].int()));
        (format!("{} {:?} {} {:?}", show_d(r.duration), r.time_scale, show_d(u.duration), u.time_scale), format!("{} {:?} {} UTC", exp, a[2].ts(), exp))
    }},
    Op { name: "to_time_of_week", sig: &[Ty::Dur, Ty::Ts], pre: |a| a[0].total() >= 0, f: |a| {
        let (w, n) = Epoch::from_duration(a[0].dur(), a[1].ts()).to_time_of_week();
        let t = a[0].total();
        (format!("({}, {})", w, n), format!("({}, {})", t / (7 * DAY_NS), t % (7 * DAY_NS)))
    }},
    Op { name: "gnss_nanoseconds", sig: &[Ty::Dur, Ty::UTs], pre: |a| SCALES[..6].iter().all(|t| conv_ok(a[0].total(), a[1].ts(), *t)), f: |a| {
        let e = Epoch::from_duration(a[0].dur(), a[1].ts());
        let tai = a[0].total() + scale_zero(a[1].ts()).unwrap();
        let show = |r: Result<u64, hifitime::HifitimeError>| match r { Ok(v) => format!("Ok({})", v), Err(_) => "Err".to_string() };
        let exp = |t: TimeScale| { let v = tai - scale_zero(t).unwrap(); if (0..NPC).contains(&v) { format!("Ok({})", v) } else { "Err".to_string() } };
        (format!("{} {} {} {}", show(e.to_gpst_nanoseconds()), show(e.to_qzsst_nanoseconds()), show(e.to_gst_nanoseconds()), show(e.to_bdt_nanoseconds())),
         format!("{} {} {} {}", exp(TimeScale::GPST), exp(TimeScale::QZSST), exp(TimeScale::GST), exp(TimeScale::BDT)))
    }},
    Op { name: "from_gnss_nanoseconds", sig: &[Ty::U64], pre: always, f: |a| {
        let n = a[0].int() as u64;
        let got = format!("{} {} {} {}", show_d(Epoch::from_gpst_nanoseconds(n).duration), show_d(Epoch::from_qzsst_nanoseconds(n).duration),
            show_d(Epoch::from_gst_nanoseconds(n).duration), show_d(Epoch::from_bdt_nanoseconds(n).duration));
        let e = show_total(a[0].int());
        (got, format!("{} {} {} {}", e, e, e, e))
    }},
    // ---------------------------------------------------------------- C15 time series
    Op { name: "timeseries", sig: &[Ty::Dur, Ty::UTs, Ty::Dur, Ty::UTs, Ty::Dur, Ty::Bool], pre: |a| {
        // positive step, non-negative span, at most 2000 items, everything far from saturation
        let step = a[4].total();
        if !no_d1(a) { return false; }
        if step <= 0 || a[0].total().abs() > 1000 * NPC || a[2].total().abs() > 1000 * NPC { return false; }
        let span = a[2].total() + scale_zero(a[3].ts()).unwrap() - scale_zero(a[1].ts()).unwrap() - a[0].total();
        span >= 0 && span / step <= 2000
    }, f: |a| {
        let start = Epoch::from_duration(a[0].dur(), a[1].ts());
        let end = Epoch::from_duration(a[2].dur(), a[3].ts());
        let step = a[4].dur();
        let incl = a[5].boolean();
        let mut ts = if incl { TimeSeries::inclusive(start, end, step) } else { TimeSeries::exclusive(start, end, step) };
        let span = a[2].total() + scale_zero(a[3].ts()).unwrap() - scale_zero(a[1].ts()).unwrap() - a[0].total();
        let mut got = String::new();
        let mut n = 0;
        while let Some(e) = ts.next() {
            got += &format!("{}{:?};", show_d(e.duration), e.time_scale);
            n += 1;
            if n > 2100 { break; }
        }
        // exhausted for good
        got += &format!("then {:?} {:?}", ts.next().is_none(), ts.next().is_none());
        let mut exp = String::new();
        let mut k: i128 = 0;
        while (incl && k * a[4].total() <= span) || (!incl && k * a[4].total() < span) {
            exp += &format!("{}{:?};", show_total(a[0].total() + k * a[4].total()), a[1].ts());
            k += 1;
        }
        exp += "then true true";
        // provided Iterator methods built on next(): a for loop, step_by, and nth / skip after partial consumption (seed C15-K)
        let mk = || if incl { TimeSeries::inclusive(start, end, step) } else { TimeSeries::exclusive(start, end, step) };
        let item = |e: Epoch| format!("{}{:?};", show_d(e.duration), e.time_scale);
        let want = |i: i128| format!("{}{:?};", show_total(a[0].total() + i * a[4].total()), a[1].ts());
        let total_items = k;
        got += " | for:";
        let mut cnt = 0i128;
        for e in mk() { if cnt < 3 { got += &item(e); } cnt += 1; if cnt > 2100 { break; } }
        got += &format!("#{}", cnt);
        exp += " | for:";
        for i in 0..total_items.min(3) { exp += &want(i); }
        exp += &format!("#{}", total_items);
        got += " | step_by(3):";
        for e in mk().step_by(3).take(4) { got += &item(e); }
        exp += " | step_by(3):";
        for j in 0..4 { if 3 * j < total_items { exp += &want(3 * j); } }
        got += " | next,next,nth(1):";
        let mut it = mk();
        let _ = it.next(); let _ = it.next();
        got += &match it.nth(1) { Some(e) => item(e), None => "None".to_string() };
        exp += " | next,next,nth(1):";
        exp += &if 3 < total_items { want(3) } else { "None".to_string() };
        got += " | next,skip(2):";
        let mut it = mk();
        let _ = it.next();
        got += &match it.skip(2).next() { Some(e) => item(e), None => "None".to_string() };
        exp += " | next,skip(2):";
        exp += &if 3 < total_items { want(3) } else { "None".to_string() };
        (got, exp)
    }},
    // ---------------------------------------------------------------- C08 gregorian construction
    // known finding D9 (30/31 February of leap years accepted) is excluded from the search region
    Op { name: "gregorian_reject", sig: &[Ty::I32, Ty::U8, Ty::U8, Ty::U8, Ty::U8, Ty::U8, Ty::U32, Ty::Ts], pre: |a| a[0].int().abs() <= 100_000 && !(a[1].int() == 2 && is_leap(a[0].int()) && (30..=31).contains(&a[2].int())), f: |a| {
        let (y, mo, d, h, mi, s, ns) = (a[0].int(), a[1].int(), a[2].int(), a[3].int(), a[4].int(), a[5].int(), a[6].int());
        let r = Epoch::maybe_from_gregorian(y as i32, mo as u8, d as u8, h as u8, mi as u8, s as u8, ns as u32, a[7].ts());
        let valid = strict_valid(y, mo, d, h, mi, s, ns);
        let reject = must_reject(y, mo, d, h, mi, s, ns);
        // the public predicate must draw the same line as the constructor
        let pv = hifitime::is_gregorian_valid(y as i32, mo as u8, d as u8, h as u8, mi as u8, s as u8, ns as u32);
        let verdict = if valid && r.is_err() { "valid date-time rejected".to_string() }
            else if reject && r.is_ok() { "invalid date-time accepted".to_string() }
            else if valid && !pv { "is_gregorian_valid rejects a valid date-time".to_string() }
            else if reject && pv { "is_gregorian_valid accepts an invalid date-time".to_string() } else { "ok".to_string() };
        (verdict, "ok".to_string())
    }},
    // the wrappers around maybe_from_gregorian: the panicking ones must panic exactly where the fallible one returns an error
    // (a verified function cannot panic, so "must reject" is outside what their contracts can say: bounded stand-in), and agree
    // with it everywhere else
    Op { name: "gregorian_wrappers", sig: &[Ty::I32, Ty::U8, Ty::U8, Ty::U8, Ty::U8, Ty::U8, Ty::U32, Ty::Ts], pre: |a| a[0].int().abs() <= 100_000 && !(a[1].int() == 2 && is_leap(a[0].int()) && (30..=31).contains(&a[2].int())), f: |a| {
        use std::panic::catch_unwind;
        let (y, mo, d, h, mi, s, ns) = (a[0].int() as i32, a[1].int() as u8, a[2].int() as u8, a[3].int() as u8, a[4].int() as u8, a[5].int() as u8, a[6].int() as u32);
        let ts = a[7].ts();
        let (yi, moi, di, hi, mii, si, nsi) = (a[0].int(), a[1].int(), a[2].int(), a[3].int(), a[4].int(), a[5].int(), a[6].int());
        let show = |r: Result<Epoch, String>| match r { Ok(e) => format!("{} {:?}", show_d(e.duration), e.time_scale), Err(m) => m };
        // expected outcome of a call with these fields in scale `sc`: the exact count, "Err" where it must be rejected; None where
        // the statement leaves it open (hour 24, nanos = 1e9: neither valid nor in the must-reject list)
        let expect = |hh: i128, mm: i128, ss: i128, nn: i128, sc: TimeScale| -> Option<String> {
            if strict_valid(yi, moi, di, hh, mm, ss, nn) {
                let sec = if ss == 60 { 59 } else { ss };
                Some(format!("{} {:?}", show_total(day_index(yi, moi, di) * DAY_NS + hh * 3_600_000_000_000 + mm * 60_000_000_000 + sec * 1_000_000_000 + nn - greg_zero(sc)), sc))
            } else if must_reject(yi, moi, di, hh, mm, ss, nn) { Some("Err".to_string()) } else { None }
        };
        let p = |f: Box<dyn Fn() -> Epoch + std::panic::UnwindSafe>| -> Result<Epoch, String> { catch_unwind(f).map_err(|_| "Err".to_string()) };
        let calls: Vec<(&str, Result<Epoch, String>, Option<String>)> = vec![
            ("from_gregorian", p(Box::new(move || Epoch::from_gregorian(y, mo, d, h, mi, s, ns, ts))), expect(hi, mii, si, nsi, ts)),
            ("from_gregorian_hms", p(Box::new(move || Epoch::from_gregorian_hms(y, mo, d, h, mi, s, ts))), expect(hi, mii, si, 0, ts)),
            ("from_gregorian_at_midnight", p(Box::new(move || Epoch::from_gregorian_at_midnight(y, mo, d, ts))), expect(0, 0, 0, 0, ts)),
            ("from_gregorian_at_noon", p(Box::new(move || Epoch::from_gregorian_at_noon(y, mo, d, ts))), expect(12, 0, 0, 0, ts)),
            ("from_gregorian_tai", p(Box::new(move || Epoch::from_gregorian_tai(y, mo, d, h, mi, s, ns))), expect(hi, mii, si, nsi, TimeScale::TAI)),
            ("from_gregorian_tai_hms", p(Box::new(move || Epoch::from_gregorian_tai_hms(y, mo, d, h, mi, s))), expect(hi, mii, si, 0, TimeScale::TAI)),
            ("from_gregorian_tai_at_midnight", p(Box::new(move || Epoch::from_gregorian_tai_at_midnight(y, mo, d))), expect(0, 0, 0, 0, TimeScale::TAI)),
            ("from_gregorian_tai_at_noon", p(Box::new(move || Epoch::from_gregorian_tai_at_noon(y, mo, d))), expect(12, 0, 0, 0, TimeScale::TAI)),
            ("from_gregorian_utc", p(Box::new(move || Epoch::from_gregorian_utc(y, mo, d, h, mi, s, ns))), expect(hi, mii, si, nsi, TimeScale::UTC)),
            ("from_gregorian_utc_hms", p(Box::new(move || Epoch::from_gregorian_utc_hms(y, mo, d, h, mi, s))), expect(hi, mii, si, 0, TimeScale::UTC)),
            ("from_gregorian_utc_at_midnight", p(Box::new(move || Epoch::from_gregorian_utc_at_midnight(y, mo, d))), expect(0, 0, 0, 0, TimeScale::UTC)),
            ("from_gregorian_utc_at_noon", p(Box::new(move || Epoch::from_gregorian_utc_at_noon(y, mo, d))), expect(12, 0, 0, 0, TimeScale::UTC)),
            ("maybe_from_gregorian_tai", Epoch::maybe_from_gregorian_tai(y, mo, d, h, mi, s, ns).map_err(|_| "Err".to_string()), expect(hi, mii, si, nsi, TimeScale::TAI)),
            ("maybe_from_gregorian_utc", Epoch::maybe_from_gregorian_utc(y, mo, d, h, mi, s, ns).map_err(|_| "Err".to_string()), expect(hi, mii, si, nsi, TimeScale::UTC)),
        ];
        let mut bad = vec![];
        for (name, got, want) in calls {
            let g = show(got);
            if let Some(w) = want { if g != w { bad.push(format!("{} = {}, expected {}", name, g, w)); } }
        }
        (if bad.is_empty() { "ok".to_string() } else { bad.join("; ") }, "ok".to_string())
    }},
    Op { name: "gregorian_leap_second", sig: &[Ty::U8, Ty::U8, Ty::Bool, Ty::Ts, Ty::U8], pre: always, f: |a| {
        // second = 60 on the LAST day of any month (or, when the flag is false, on the day before it) of 1960 + (n mod 70):
        // accepted exactly at 23:59 with a valid nanosecond field on the IERS leap-second days.  The last argument varies
        // the other fields (seeds C08-C, C08-H: the second = 60 path must not skip the remaining range checks)
        let y = 1960 + (a[0].int() % 70);
        let mo = 1 + (a[1].int() % 12);
        let d = if a[2].boolean() { month_len(y, mo) } else { month_len(y, mo) - 1 };
        let v = a[4].int();
        let ns: i128 = [0, 0, 0, 999_999_999, 1_000_000_000, 3_000_000_000][(v % 6) as usize];
        let h: i128 = [23, 23, 23, 22, 0][((v / 6) % 5) as usize];
        let mi: i128 = [59, 59, 59, 58, 0][((v / 30) % 5) as usize];
        let r = Epoch::maybe_from_gregorian(y as i32, mo as u8, d as u8, h as u8, mi as u8, 60, ns as u32, a[3].ts());
        let verdict = if strict_valid(y, mo, d, h, mi, 60, ns) && r.is_err() { format!("leap second {}-{}-{}T{}:{}:60 +{} ns rejected", y, mo, d, h, mi, ns) }
            else if must_reject(y, mo, d, h, mi, 60, ns) && r.is_ok() { format!("{}-{}-{}T{}:{}:60 +{} ns accepted although the statement demands rejection", y, mo, d, h, mi, ns) } else { "ok".to_string() };
        (verdict, "ok".to_string())
    }},
    // ---------------------------------------------------------------- C09 Epoch -> Gregorian fields
    Op { name: "gregorian_roundtrip", sig: &[Ty::I32, Ty::U8, Ty::U8, Ty::U8, Ty::U8, Ty::U8, Ty::U32, Ty::Ts], pre: |a| {
        a[0].int().abs() <= 30_000 && strict_valid(a[0].int(), a[1].int(), a[2].int(), a[3].int(), a[4].int(), a[5].int(), a[6].int()) && a[5].int() < 60
    }, f: |a| {
        let (y, mo, d, h, mi, s, ns) = (a[0].int(), a[1].int(), a[2].int(), a[3].int(), a[4].int(), a[5].int(), a[6].int());
        let e = Epoch::maybe_from_gregorian(y as i32, mo as u8, d as u8, h as u8, mi as u8, s as u8, ns as u32, a[7].ts()).unwrap();
        let got = gregorian_fields(e);
        (format!("{:?}", got), format!("{:?}", (y as i32, mo as u8, d as u8, h as u8, mi as u8, s as u8, ns as u32)))
    }},
    Op { name: "gregorian_fields_of_instant", sig: &[Ty::Dur, Ty::Ts], pre: |a| a[0].total().abs() < 95 * NPC, f: |a| {
        // decomposing any instant gives valid fields that rebuild the identical epoch
        let e = Epoch::from_duration(a[0].dur(), a[1].ts());
        let (y, mo, d, h, mi, s, ns) = gregorian_fields(e);
        let valid = strict_valid(y as i128, mo as i128, d as i128, h as i128, mi as i128, s as i128, ns as i128) && s < 60;
        let back = Epoch::maybe_from_gregorian(y, mo, d, h, mi, s, ns, a[1].ts());
        let same = match back { Ok(b) => b.duration.to_parts() == e.duration.to_parts() && b.time_scale == e.time_scale, Err(_) => false };
        (if valid && same { "ok".to_string() } else { format!("fields {:?} valid={} rebuilds_identical={}", (y, mo, d, h, mi, s, ns), valid, same) }, "ok".to_string())
    }},
    Op { name: "epoch_year_accessors", sig: &[Ty::I32, Ty::U8, Ty::Bool, Ty::Ts], pre: |a| a[0].int().abs() <= 30_000, f: |a| {
        // the accessors agree with the fields in the epoch's OWN scale, in particular within a minute of a new year
        let y = a[0].int();
        let s = a[1].int() % 60;
        let e = if a[2].boolean() { Epoch::maybe_from_gregorian(y as i32, 12, 31, 23, 59, s as u8, 999_999_999, a[3].ts()) } else { Epoch::maybe_from_gregorian(y as i32, 1, 1, 0, 0, s as u8, 1, a[3].ts()) }.unwrap();
        let in_year = if a[2].boolean() { (day_index(y, 12, 31) - day_index(y, 1, 1)) * DAY_NS + (23 * 3600 + 59 * 60 + s) * 1_000_000_000 + 999_999_999 } else { s * 1_000_000_000 + 1 };
        (format!("{} {:?} {}", e.year(), e.month_name(), show_d(e.duration_in_year())),
         format!("{} {} {}", y, if a[2].boolean() { "December" } else { "January" }, show_total(in_year)))
    }},
    Op { name: "gregorian_roundtrip_dense", sig: &[Ty::I32, Ty::U8, Ty::U8, Ty::U8, Ty::U8, Ty::U8, Ty::U32, Ty::Ts], pre: |a| a[0].int().abs() <= 30_000, f: |a| {
        // same statement as gregorian_roundtrip, with the raw arguments folded into valid fields so that every input counts
        let y = a[0].int();
        let mo = 1 + a[1].int() % 12;
        let d = 1 + a[2].int() % month_len(y, mo);
        let (h, mi, s, ns) = (a[3].int() % 24, a[4].int() % 60, a[5].int() % 60, a[6].int() % 1_000_000_000);
        let e = Epoch::maybe_from_gregorian(y as i32, mo as u8, d as u8, h as u8, mi as u8, s as u8, ns as u32, a[7].ts()).unwrap();
        let got = gregorian_fields(e);
        let exp_ns = day_index(y, mo, d) * DAY_NS + h * 3_600_000_000_000 + mi * 60_000_000_000 + s * 1_000_000_000 + ns - greg_zero(a[7].ts());
        (format!("{:?} {}", got, show_d(e.duration)), format!("{:?} {}", (y as i32, mo as u8, d as u8, h as u8, mi as u8, s as u8, ns as u32), show_total(exp_ns)))
    }},
    // ---------------------------------------------------------------- secondary entry points (constructors from a Duration, small accessors)
    Op { name: "epoch_duration_ctors", sig: &[Ty::Dur], pre: always, f: |a| {
        // every from_<scale>_duration constructor stores exactly the given duration in exactly that scale
        let d = a[0].dur();
        let (c, n) = d.to_parts();
        let all = [Epoch::from_tai_duration(d), Epoch::from_tt_duration(d), Epoch::from_gpst_duration(d), Epoch::from_qzsst_duration(d), Epoch::from_gst_duration(d),
                   Epoch::from_bdt_duration(d), Epoch::from_utc_duration(d), Epoch::from_tai_parts(c, n)];
        let got: Vec<String> = all.iter().map(|e| format!("{} {:?}", show_d(e.duration), e.time_scale)).collect();
        let exp: Vec<String> = ["TAI", "TT", "GPST", "QZSST", "GST", "BDT", "UTC", "TAI"].iter().map(|t| format!("{} {}", show_total(a[0].total()), t)).collect();
        (got.join(" | "), exp.join(" | "))
    }},
    Op { name: "duration_small_accessors", sig: &[Ty::Dur, Ty::Unit, Ty::I8, Ty::I32, Ty::I32], pre: always, f: |a| {
        // subdivision(unit) is the decomposition's component times the unit; from_tz_offset(sign, h, m) is +/-(h hours + m minutes)
        let d = a[0].dur();
        let m = a[0].total().abs();
        let u = a[1].unit();
        let comp = |un: i128, modulo: i128| if modulo == 0 { m / un } else { (m / un) % modulo };
        let exp_sub = match u {
            Unit::Nanosecond => Some(comp(1, 1000)), Unit::Microsecond => Some(comp(1_000, 1000) * 1_000), Unit::Millisecond => Some(comp(1_000_000, 1000) * 1_000_000),
            Unit::Second => Some(comp(1_000_000_000, 60) * 1_000_000_000), Unit::Minute => Some(comp(60_000_000_000, 60) * 60_000_000_000),
            Unit::Hour => Some(comp(3_600_000_000_000, 24) * 3_600_000_000_000), Unit::Day => Some(comp(DAY_NS, 0) * DAY_NS), _ => None,
        };
        let (sg, h, mi) = (a[2].int(), a[3].int(), a[4].int());
        let tz = h * 3_600_000_000_000 + mi * 60_000_000_000;
        let tz = if sg < 0 { -tz } else { tz };
        (format!("{} {}", match d.subdivision(u) { Some(x) => show_d(x), None => "None".to_string() }, show_d(Duration::from_tz_offset(sg as i8, h as i64, mi as i64))),
         format!("{} {}", match exp_sub { Some(x) => show_total(x), None => "None".to_string() }, show_total(clamp(tz))))
    }},
    Op { name: "epoch_small_accessors", sig: &[Ty::Dur, Ty::UTs], pre: |a| a[0].total().abs() < 95 * NPC && conv_ok(a[0].total(), a[1].ts(), TimeScale::TAI), f: |a| {
        // to_gregorian_tai gives the civil fields of the TAI count; month_name is the month of the date in the epoch's own scale
        let e = Epoch::from_duration(a[0].dur(), a[1].ts());
        let tai = a[0].total() + scale_zero(a[1].ts()).unwrap();
        let fields = |t: i128| { let day = t.div_euclid(DAY_NS); let r = t.rem_euclid(DAY_NS); let (y, mo, d) = civil_of_day(day);
            (y as i32, mo as u8, d as u8, (r / 3_600_000_000_000) as u8, (r / 60_000_000_000 % 60) as u8, (r / 1_000_000_000 % 60) as u8, (r % 1_000_000_000) as u32) };
        let own = fields(a[0].total() + greg_zero(a[1].ts()));
        const MONTHS: [&str; 12] = ["January", "February", "March", "April", "May", "June", "July", "August", "September", "October", "November", "December"];
        // the UTC views are relational: the fields / Julian date of the UTC count the crate itself computes (C06 decides that count)
        let (uc, un) = e.to_utc_duration().to_parts();
        let utc = uc as i128 * NPC + un as i128;
        (format!("{:?} {:?} {:?} {}", e.to_gregorian_tai(), e.month_name(), e.to_gregorian_utc(), show_d(e.to_jde_utc_duration())),
         format!("{:?} {} {:?} {}", fields(tai), MONTHS[(own.1 - 1) as usize], fields(utc), show_total(utc + 2_415_020 * DAY_NS + DAY_NS / 2)))
    }},
    Op { name: "gregorian_build", sig: &[Ty::I32, Ty::U8, Ty::U8, Ty::U8, Ty::U8, Ty::U8, Ty::U32, Ty::Ts], pre: |a| {
        a[0].int().abs() <= 100_000 && strict_valid(a[0].int(), a[1].int(), a[2].int(), a[3].int(), a[4].int(), a[5].int(), a[6].int()) && a[5].int() < 60
    }, f: |a| {
        let (y, mo, d, h, mi, s, ns) = (a[0].int(), a[1].int(), a[2].int(), a[3].int(), a[4].int(), a[5].int(), a[6].int());
        let r = Epoch::maybe_from_gregorian(y as i32, mo as u8, d as u8, h as u8, mi as u8, s as u8, ns as u32, a[7].ts());
        let exp = day_index(y, mo, d) * DAY_NS + h * 3_600_000_000_000 + mi * 60_000_000_000 + s * 1_000_000_000 + ns - greg_zero(a[7].ts());
        (match r { Ok(e) => format!("{} {:?}", show_d(e.duration), e.time_scale), Err(_) => "Err".to_string() }, format!("{} {:?}", show_total(exp), a[7].ts()))
    }},
    // ---------------------------------------------------------------- C17 Duration-valued JD / MJD / J2000 views
    Op { name: "jd_views", sig: &[Ty::Dur, Ty::UTs], pre: |a| a[0].total().abs() < 30_000 * NPC && conv_ok(a[0].total(), a[1].ts(), TimeScale::TT), f: |a| {
        let e = Epoch::from_duration(a[0].dur(), a[1].ts());
        let tai = a[0].total() + scale_zero(a[1].ts()).unwrap();
        let tt = tai + 32_184_000_000;
        let mjd = 15_020 * DAY_NS;
        let jd = 2_415_020 * DAY_NS + DAY_NS / 2;
        (format!("{} {} {} {}", show_d(e.to_jde_tai_duration()), show_d(e.to_jde_tt_duration()), show_d(e.to_mjd_tt_duration()), show_d(e.to_tt_since_j2k())),
         format!("{} {} {} {}", show_total(tai + jd), show_total(tt + jd), show_total(tt + mjd), show_total(tt - 3_155_716_800 * 1_000_000_000)))
    }},
    Op { name: "unix_views", sig: &[Ty::Dur, Ty::Ts], pre: |a| a[0].total().abs() < 100 * NPC && a[1].ts() != TimeScale::ET && a[1].ts() != TimeScale::TDB, f: |a| {
        // relational: the UNIX view is the UTC elapsed time (as the crate itself computes it) shifted by 2 208 988 800 s.
        // The Duration-valued accessor is private; the f64 view is compared to within a millisecond.
        let e = Epoch::from_duration(a[0].dur(), a[1].ts());
        let (uc, un) = e.to_utc_duration().to_parts();
        let ut = uc as i128 * NPC + un as i128;
        let k: i128 = 2_208_988_800 * 1_000_000_000;
        let want_s = ((ut - k) as f64) / 1e9;
        let got_s = e.to_unix_seconds();
        let back = Epoch::from_unix_duration(a[0].dur());
        let v = if (got_s - want_s).abs() < 1e-3 { "unix ok".to_string() } else { format!("to_unix_seconds = {} but UTC elapsed - 2208988800 s = {}", got_s, want_s) };
        (format!("{} {} {:?}", v, show_d(back.duration), back.time_scale), format!("unix ok {} UTC", show_total(a[0].total() + k)))
    }},
    // ---------------------------------------------------------------- C06 UTC <-> TAI
    Op { name: "utc_to_tai", sig: &[Ty::Dur], pre: |a| a[0].total().abs() < 1000 * NPC, f: |a| {
        let u = a[0].total();
        let e = Epoch::from_duration(a[0].dur(), TimeScale::UTC);
        let t = e.to_time_scale(TimeScale::TAI);
        let back = t.to_time_scale(TimeScale::UTC);
        (format!("{} {:?} back {} {:?}", show_d(t.duration), t.time_scale, show_d(back.duration), back.time_scale),
         format!("{} TAI back {} UTC", show_total(u + offset_at_utc_ns(u) * 1_000_000_000), show_total(u)))
    }},
    Op { name: "tai_to_utc", sig: &[Ty::Dur], pre: |a| a[0].total().abs() < 1000 * NPC, f: |a| {
        // outside the inserted seconds the UTC count u of TAI instant t is the one with u + offset(u) = t
        let t = a[0].total();
        let r = Epoch::from_duration(a[0].dur(), TimeScale::TAI).to_time_scale(TimeScale::UTC);
        let (c, n) = r.duration.to_parts();
        let u = c as i128 * NPC + n as i128;
        let s = 1_000_000_000;
        let inside_inserted = leap_table().iter().enumerate().any(|(i, (ts, d))| {
            let prev = if i == 0 { 0 } else { d - 1 };
            t >= (ts + prev) * s && t < (ts + d) * s
        });
        let ok = if inside_inserted {
            leap_table().iter().any(|(ts, d)| (u - ts * s).abs() <= (if *d == 10 { 10 } else { 1 }) * s)
        } else {
            u + offset_at_utc_ns(u) * s == t
        };
        (if ok { "ok".to_string() } else { format!("TAI {} -> UTC {} (offset there {} s)", t, u, offset_at_utc_ns(u)) }, "ok".to_string())
    }},
    Op { name: "weekday_algebra", sig: &[Ty::Wd, Ty::U8, Ty::I8, Ty::Wd], pre: always, f: |a| {
        let (w, n, i, w2) = (a[0].wd(), a[1].int() as u8, a[2].int() as i8, a[3].wd());
        let ix = |x: hifitime::Weekday| u8::from(x) as i128;
        let mut x = w; x += n;
        let mut y = w; y -= n;
        let d = (w - w2).to_parts();
        (format!("{} {} {} {} {} {} {} {:?}", ix(w + n), ix(w - n), ix(x), ix(y), ix(hifitime::Weekday::from(n)), ix(hifitime::Weekday::from(i)), ix(w + w2), d),
         format!("{} {} {} {} {} {} {} {:?}", (ix(w) + n as i128) % 7, (ix(w) - n as i128).rem_euclid(7), (ix(w) + n as i128) % 7, (ix(w) - n as i128).rem_euclid(7),
                 n as i128 % 7, (i as i128).rem_euclid(7), (ix(w) + ix(w2)) % 7, (0i16, ((ix(w2) - ix(w)).rem_euclid(7) * DAY_NS) as u64)))
    }},
    Op { name: "epoch_weekday_utc", sig: &[Ty::Dur, Ty::Bool], pre: |a| a[0].total().abs() < 1000 * NPC, f: |a| {
        // weekday_utc: day number of the UTC count; for a TAI epoch the UTC count u with u + offset(u) = t (outside inserted seconds)
        if a[1].boolean() {
            let e = Epoch::from_duration(a[0].dur(), TimeScale::UTC);
            (format!("{:?}", e.weekday_utc()), format!("{:?}", hifitime::Weekday::from(a[0].total().div_euclid(DAY_NS).rem_euclid(7) as u8)))
        } else {
            let t = a[0].total();
            let s = 1_000_000_000;
            let inside = leap_table().iter().enumerate().any(|(i, (ts, d))| { let prev = if i == 0 { 0 } else { d - 1 }; t >= (ts + prev) * s && t < (ts + d) * s });
            if inside { return ("skip".into(), "skip".into()); }
            // solve u + offset(u) = t
            let mut u = t;
            for (ts, d) in leap_table() { if t - d * s >= ts * s { u = t - d * s; } }
            let e = Epoch::from_duration(a[0].dur(), TimeScale::TAI);
            (format!("{:?}", e.weekday_utc()), format!("{:?}", hifitime::Weekday::from(u.div_euclid(DAY_NS).rem_euclid(7) as u8)))
        }
    }},
    Op { name: "leap_file_provider", sig: &[Ty::Dur, Ty::Bool], pre: |a| a[0].total().abs() < 1000 * NPC, f: |a| {
        // a provider loaded from the IERS-format file shipped with the sources answers like the built-in table
        let path = concat!(env!("CARGO_MANIFEST_DIR"), "/../../repo/data/leap-seconds.list");
        let path = if std::path::Path::new(path).exists() { path.to_string() } else { "/repo/data/leap-seconds.list".to_string() };
        let file = hifitime::leap_seconds::LeapSecondsFile::from_path(&path).expect("leap-seconds.list");
        let e = Epoch::from_duration(a[0].dur(), TimeScale::TAI);
        let rows_fwd: Vec<(u64, u64)> = file.clone().map(|l| (l.timestamp_tai_s as u64, l.delta_at as u64)).collect();
        let mut rows_rev: Vec<(u64, u64)> = file.clone().rev().map(|l| (l.timestamp_tai_s as u64, l.delta_at as u64)).collect();
        rows_rev.reverse();
        let want: Vec<(u64, u64)> = leap_table().iter().map(|(t, d)| (*t as u64, *d as u64)).collect();
        (format!("{:?} fwd={} rev={}", e.leap_seconds_with(a[1].boolean(), file), rows_fwd == want, rows_rev == want),
         format!("{:?} fwd=true rev=true", if a[1].boolean() { e.leap_seconds(true) } else { e.leap_seconds(true) }))
    }},
    // ---------------------------------------------------------------- C16 weekdays of epochs
    Op { name: "epoch_weekday", sig: &[Ty::Dur, Ty::UTs], pre: |a| conv_ok(a[0].total(), a[1].ts(), TimeScale::TAI), f: |a| {
        let e = Epoch::from_duration(a[0].dur(), a[1].ts());
        let tai = a[0].total() + scale_zero(a[1].ts()).unwrap();
        let own = e.weekday_in_time_scale(a[1].ts());
        (format!("{:?} {:?}", e.weekday(), own),
         format!("{:?} {:?}", hifitime::Weekday::from(tai.div_euclid(DAY_NS).rem_euclid(7) as u8), hifitime::Weekday::from(a[0].total().div_euclid(DAY_NS).rem_euclid(7) as u8)))
    }},
    Op { name: "epoch_next_previous", sig: &[Ty::Dur, Ty::UTs, Ty::Wd], pre: |a| conv_ok(a[0].total(), a[1].ts(), TimeScale::TAI) && a[0].total().abs() < 30_000 * NPC, f: |a| {
        let e = Epoch::from_duration(a[0].dur(), a[1].ts());
        let tai = a[0].total() + scale_zero(a[1].ts()).unwrap();
        let cur = tai.div_euclid(DAY_NS).rem_euclid(7);
        let want = u8::from(a[2].wd()) as i128;
        let kn = if (want - cur).rem_euclid(7) == 0 { 7 } else { (want - cur).rem_euclid(7) };
        let kp = if (cur - want).rem_euclid(7) == 0 { 7 } else { (cur - want).rem_euclid(7) };
        let (n, p) = (e.next(a[2].wd()), e.previous(a[2].wd()));
        (format!("{} {} {:?} {:?}", show_d(n.duration), show_d(p.duration), n.time_scale, p.time_scale),
         format!("{} {} {:?} {:?}", show_total(a[0].total() + kn * DAY_NS), show_total(a[0].total() - kp * DAY_NS), a[1].ts(), a[1].ts()))
    }},
    // next/previous weekday at midnight / noon: 00:00 / 12:00 of the day next()/previous() lands in (results at or after the
    // scale's reference epoch; before it with_hms_strict rounds the magnitude, which the property does not speak about)
    Op { name: "epoch_weekday_at", sig: &[Ty::Dur, Ty::UTs, Ty::Wd], pre: |a| conv_ok(a[0].total(), a[1].ts(), TimeScale::TAI) && a[0].total() >= 8 * DAY_NS && a[0].total() < 30_000 * NPC, f: |a| {
        let e = Epoch::from_duration(a[0].dur(), a[1].ts());
        let tai = a[0].total() + scale_zero(a[1].ts()).unwrap();
        let cur = tai.div_euclid(DAY_NS).rem_euclid(7);
        let want = u8::from(a[2].wd()) as i128;
        let kn = if (want - cur).rem_euclid(7) == 0 { 7 } else { (want - cur).rem_euclid(7) };
        let kp = if (cur - want).rem_euclid(7) == 0 { 7 } else { (cur - want).rem_euclid(7) };
        let (n, p) = (a[0].total() + kn * DAY_NS, a[0].total() - kp * DAY_NS);
        let w = a[2].wd();
        let got = [e.next_weekday_at_midnight(w), e.next_weekday_at_noon(w), e.previous_weekday_at_midnight(w), e.previous_weekday_at_noon(w)];
        let exp = [n.div_euclid(DAY_NS) * DAY_NS, n.div_euclid(DAY_NS) * DAY_NS + DAY_NS / 2, p.div_euclid(DAY_NS) * DAY_NS, p.div_euclid(DAY_NS) * DAY_NS + DAY_NS / 2];
        (got.iter().map(|g| format!("{} {:?}", show_d(g.duration), g.time_scale)).collect::<Vec<_>>().join(" | "),
         exp.iter().map(|x| format!("{} {:?}", show_total(clamp(*x)), a[1].ts())).collect::<Vec<_>>().join(" | "))
    }},
    Op { name: "epoch_with_hms", sig: &[Ty::Dur, Ty::UTs, Ty::U8, Ty::U8, Ty::U8], pre: always, f: |a| {
        let e = Epoch::from_duration(a[0].dur(), a[1].ts());
        let t = a[0].total();
        let (h, m, s) = (a[2].int(), a[3].int(), a[4].int());
        let base = (t.abs() / DAY_NS) * DAY_NS + h * 3_600_000_000_000 + m * 60_000_000_000 + s * 1_000_000_000;
        let sg = if t < 0 { -1 } else { 1 };
        let (x, y) = (e.with_hms_strict(h as u64, m as u64, s as u64), e.with_hms(h as u64, m as u64, s as u64));
        (format!("{} {:?} | {} {:?}", show_d(x.duration), x.time_scale, show_d(y.duration), y.time_scale),
         format!("{} {:?} | {} {:?}", show_total(clamp(sg * base)), a[1].ts(), show_total(clamp(sg * (base + t.abs() % 1_000_000_000))), a[1].ts()))
    }},
];

/// the Gregorian fields of an epoch in its own time scale, through the public API
pub fn gregorian_fields(e: Epoch) -> (i32, u8, u8, u8, u8, u8, u32) {
    // to_gregorian_str formats compute_gregorian(self.to_duration_in_time_scale(ts), ts); parse the numbers back
    let s = e.to_gregorian_str(e.time_scale);
    let (date, rest) = s.split_once('T').expect("T");
    let neg = date.starts_with('-');
    let dparts: Vec<&str> = date.trim_start_matches('-').split('-').collect();
    let y: i32 = dparts[0].parse::<i32>().expect("year") * if neg { -1 } else { 1 };
    let mo: u8 = dparts[1].parse().expect("month");
    let d: u8 = dparts[2].parse().expect("day");
    let time = rest.split(' ').next().unwrap();
    let (hms, frac) = match time.split_once('.') { Some((a, b)) => (a, b), None => (time, "0") };
    let t: Vec<&str> = hms.split(':').collect();
    let ns: u32 = if frac == "0" { 0 } else { frac.parse().expect("nanos") };
    (y, mo, d, t[0].parse().unwrap(), t[1].parse().unwrap(), t[2].parse().unwrap(), ns)
}

fn conv_ok(total: i128, src: TimeScale, dst: TimeScale) -> bool {
    match (scale_zero(src), scale_zero(dst)) {
        (Some(a), Some(b)) => {
            let t = total + a;
            t >= MIN_T && t <= MAX_T && t - b >= MIN_T && t - b <= MAX_T
        }
        _ => false,
    }
}
