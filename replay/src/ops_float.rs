// Statement-level oracles for the FLOAT clauses (C17, C18, C20, C09): "exact value to within a few units in the last place",
// correct sign, monotone, round trips "to float precision".  The exact value is a ratio of two i128 (nanoseconds / nanoseconds
// per unit); the tolerance is K_ULP units in the last place of max(|exact|, one second's worth in that unit), which is what
// the property statements grant.  These ops are what `check` runs as the BOUNDED stand-in for the float code no contract can
// reach, and as the falsifier behind the structural (`sufficient`) float contracts.
use crate::oracle::*;
use crate::{Arg, Op, Ty};
use hifitime::{Duration, Epoch, TimeScale, TimeUnits, Unit};

const K_ULP: f64 = 8.0;

fn ulp(x: f64) -> f64 {
    let a = x.abs();
    if a == 0.0 {
        f64::MIN_POSITIVE
    } else if !a.is_finite() {
        f64::NAN
    } else {
        f64::from_bits(a.to_bits() + 1) - a
    }
}
/// n / d as a double, within about one unit in the last place (integer part and fraction rounded separately)
fn ratio(n: i128, d: i128) -> f64 {
    let (m, sg) = (n.unsigned_abs() as i128, if n < 0 { -1.0 } else { 1.0 });
    sg * ((m / d) as f64 + ((m % d) as f64) / (d as f64))
}
/// is `got` the exact value n/d to within K_ULP ulp (of the value, or of `floor_mag` for values closer to zero), with the right sign?
fn close(got: f64, n: i128, d: i128, floor_mag: f64) -> bool {
    let x = ratio(n, d);
    let tol = K_ULP * ulp(x.abs().max(floor_mag));
    let sign_ok = if n == 0 { got == 0.0 } else { (got < 0.0) == (n < 0) && got != 0.0 };
    got.is_finite() && (got - x).abs() <= tol && sign_ok
}
fn second_worth(u: Unit) -> f64 {
    1e9 / unit_ns(u) as f64
}
fn chk(bad: &mut Vec<String>, name: &str, got: f64, n: i128, d: i128, floor_mag: f64) {
    if !close(got, n, d, floor_mag) {
        bad.push(format!("{} = {:e} but exact value is {}/{} = {:e}", name, got, n, d, ratio(n, d)));
    }
}
fn verdict(bad: Vec<String>) -> (String, String) {
    (if bad.is_empty() { "ok".to_string() } else { bad.join("; ") }, "ok".to_string())
}
fn dtotal(d: Duration) -> i128 {
    let (c, n) = d.to_parts();
    c as i128 * NPC + n as i128
}
/// the UTC count of a TAI instant outside the inserted seconds: the u with u + offset(u) = t
fn utc_of_tai(t: i128) -> Option<i128> {
    let s = 1_000_000_000;
    for d in std::iter::once(0).chain(10..=37) {
        let u = t - d * s;
        if u + offset_at_utc_ns(u) * s == t {
            return Some(u);
        }
    }
    None
}
const MJD_NS: i128 = 15_020 * DAY_NS;
const JD_NS: i128 = 2_415_020 * DAY_NS + DAY_NS / 2;
const J2000_NS: i128 = 3_155_716_800 * 1_000_000_000;
const UNIX_NS: i128 = 2_208_988_800 * 1_000_000_000;
const SEC: i128 = 1_000_000_000;
const CENT: i128 = NPC;

fn views_pre(a: &[Arg]) -> bool {
    match scale_zero(a[1].ts()) {
        Some(z) => (a[0].total() + z).abs() < 30_000 * NPC && a[0].total().abs() < 30_000 * NPC,
        None => false,
    }
}
/// nanoseconds tolerated when a float value v (in units of `unit_ns`) is turned back into an instant
fn back_tol(v: f64, unit: i128) -> i128 {
    (K_ULP * ulp(v.abs().max(1e9 / unit as f64)) * unit as f64).ceil() as i128 + 2
}

pub static OPS_FLOAT: &[Op] = &[
    // ---------------------------------------------------------------- C18: Duration -> float
    Op { name: "duration_to_f64", sig: &[Ty::Dur, Ty::Unit], pre: |_| true, f: |a| {
        let d = Duration::from_total_nanoseconds(a[0].total());
        let t = clamp(a[0].total());
        let u = a[1].unit();
        let mut bad = vec![];
        chk(&mut bad, "to_seconds", d.to_seconds(), t, SEC, 1.0);
        chk(&mut bad, "to_unit", d.to_unit(u), t, unit_ns(u), second_worth(u));
        chk(&mut bad, "in_seconds", u.in_seconds(), unit_ns(u), SEC, 0.0);
        chk(&mut bad, "from_seconds", u.from_seconds(), SEC, unit_ns(u), 0.0);
        verdict(bad)
    }},
    Op { name: "duration_to_f64_monotone", sig: &[Ty::Dur, Ty::Dur, Ty::Unit], pre: |_| true, f: |a| {
        let t0 = clamp(a[0].total());
        let u = a[2].unit();
        let mut bad = vec![];
        for t1 in [clamp(a[1].total()), clamp(t0 + a[1].total().rem_euclid(2001) - 1000), clamp(t0 + a[1].total().rem_euclid(2_000_000_000_001) - 1_000_000_000_000)] {
            let (lo, hi) = if t0 <= t1 { (t0, t1) } else { (t1, t0) };
            let (dl, dh) = (Duration::from_total_nanoseconds(lo), Duration::from_total_nanoseconds(hi));
            if !(dl.to_seconds() <= dh.to_seconds()) {
                bad.push(format!("to_seconds decreases from {} ns to {} ns", lo, hi));
            }
            if !(dl.to_unit(u) <= dh.to_unit(u)) {
                bad.push(format!("to_unit decreases from {} ns to {} ns", lo, hi));
            }
        }
        verdict(bad)
    }},
    // ---------------------------------------------------------------- C18: float -> Duration wrappers (kernel Unit * f64 is C18's Kani proof)
    Op { name: "duration_from_f64", sig: &[Ty::I64, Ty::U8, Ty::Bool], pre: |_| true, f: |a| {
        let v = (a[0].int() as i64 as f64) / (2.0f64).powi((a[1].int() % 48) as i32);
        let w = v / 3.0;
        let got = [Duration::from_days(v), Duration::from_hours(v), Duration::from_seconds(v), Duration::from_milliseconds(v),
                   Duration::from_microseconds(v), Duration::from_nanoseconds(v),
                   v.days(), v.hours(), v.minutes(), v.seconds(), v.milliseconds(), v.microseconds(), v.nanoseconds(), v.weeks(), v.centuries()];
        let exp = [Unit::Day * v, Unit::Hour * v, Unit::Second * v, Unit::Millisecond * v, Unit::Microsecond * v, Unit::Nanosecond * v,
                   Unit::Day * v, Unit::Hour * v, Unit::Minute * v, Unit::Second * v, Unit::Millisecond * v, Unit::Microsecond * v, Unit::Nanosecond * v, Unit::Week * v, Unit::Century * v];
        let sign: i8 = if a[2].boolean() { 1 } else { -1 };
        let c = Duration::compose_f64(sign, w, v, w, v, w, v, w);
        let parts = [Unit::Day * w, Unit::Hour * v, Unit::Minute * w, Unit::Second * v, Unit::Millisecond * w, Unit::Microsecond * v, Unit::Nanosecond * w];
        let mut acc = dtotal(parts[0]);
        for p in &parts[1..] {
            acc = clamp(acc + dtotal(*p));
        }
        let ce = clamp(if sign < 0 { -acc } else { acc });
        (format!("{} | {}", got.iter().map(|d| show_parts(d.to_parts())).collect::<Vec<_>>().join(" "), show_parts(c.to_parts())),
         format!("{} | {}", exp.iter().map(|d| show_parts(d.to_parts())).collect::<Vec<_>>().join(" "), show_total(ce)))
    }},
    // Duration x f64: the real product within one nanosecond plus float rounding, saturating
    Op { name: "duration_mul_f64", sig: &[Ty::Dur, Ty::I64, Ty::U8], pre: |a| a[0].total() >= -NPC, f: |a| {
        let d = Duration::from_total_nanoseconds(a[0].total());
        let t = clamp(a[0].total());
        let k = a[2].int();
        let i = a[1].int() as i64 as f64;
        let q = if k % 2 == 0 { i / (2.0f64).powi(((k / 2) % 60) as i32) } else { i / (10.0f64).powi(((k / 2) % 19) as i32) };
        let r = dtotal(d * q);
        let pf = (t as f64) * q;
        let slack = 1.5 + pf.abs() * (2.0f64).powi(-50);
        let ok = if pf - slack > MAX_T as f64 { r == MAX_T } else if pf + slack < MIN_T as f64 { r == MIN_T } else { ((r as f64) - pf).abs() <= slack };
        (if ok { "ok".to_string() } else { format!("({} ns) x {:e} = {} ns but the product is {:e} ns", t, q, r, pf) }, "ok".to_string())
    }},
    // ---------------------------------------------------------------- C17: float-valued views of an epoch
    Op { name: "epoch_float_views", sig: &[Ty::Dur, Ty::UTs, Ty::Unit], pre: views_pre, f: |a| {
        let ts = a[1].ts();
        let e = Epoch::from_duration(a[0].dur(), ts);
        let tai = a[0].total() + scale_zero(ts).unwrap();
        let u = a[2].unit();
        let (un, sw) = (unit_ns(u), second_worth(u));
        let dsw = second_worth(Unit::Day);
        let mut bad = vec![];
        chk(&mut bad, "to_tai_seconds", e.to_tai_seconds(), tai, SEC, 1.0);
        chk(&mut bad, "to_tai_days", e.to_tai_days(), tai, DAY_NS, dsw);
        chk(&mut bad, "to_tai(unit)", e.to_tai(u), tai, un, sw);
        chk(&mut bad, "to_mjd_tai_days", e.to_mjd_tai_days(), tai + MJD_NS, DAY_NS, dsw);
        chk(&mut bad, "to_mjd_tai_seconds", e.to_mjd_tai_seconds(), tai + MJD_NS, SEC, 1.0);
        chk(&mut bad, "to_mjd_tai(unit)", e.to_mjd_tai(u), tai + MJD_NS, un, sw);
        chk(&mut bad, "to_jde_tai_days", e.to_jde_tai_days(), tai + JD_NS, DAY_NS, dsw);
        chk(&mut bad, "to_jde_tai_seconds", e.to_jde_tai_seconds(), tai + JD_NS, SEC, 1.0);
        chk(&mut bad, "to_jde_tai(unit)", e.to_jde_tai(u), tai + JD_NS, un, sw);
        let tt = tai - scale_zero(TimeScale::TT).unwrap();
        chk(&mut bad, "to_tt_seconds", e.to_tt_seconds(), tt, SEC, 1.0);
        chk(&mut bad, "to_tt_days", e.to_tt_days(), tt, DAY_NS, dsw);
        chk(&mut bad, "to_tt_centuries_j2k", e.to_tt_centuries_j2k(), tt - J2000_NS, CENT, second_worth(Unit::Century));
        chk(&mut bad, "to_jde_tt_days", e.to_jde_tt_days(), tt + JD_NS, DAY_NS, dsw);
        chk(&mut bad, "to_mjd_tt_days", e.to_mjd_tt_days(), tt + MJD_NS, DAY_NS, dsw);
        let g = |s: TimeScale| tai - scale_zero(s).unwrap();
        chk(&mut bad, "to_gpst_seconds", e.to_gpst_seconds(), g(TimeScale::GPST), SEC, 1.0);
        chk(&mut bad, "to_gpst_days", e.to_gpst_days(), g(TimeScale::GPST), DAY_NS, dsw);
        chk(&mut bad, "to_qzsst_seconds", e.to_qzsst_seconds(), g(TimeScale::QZSST), SEC, 1.0);
        chk(&mut bad, "to_qzsst_days", e.to_qzsst_days(), g(TimeScale::QZSST), DAY_NS, dsw);
        chk(&mut bad, "to_gst_seconds", e.to_gst_seconds(), g(TimeScale::GST), SEC, 1.0);
        chk(&mut bad, "to_gst_days", e.to_gst_days(), g(TimeScale::GST), DAY_NS, dsw);
        chk(&mut bad, "to_bdt_seconds", e.to_bdt_seconds(), g(TimeScale::BDT), SEC, 1.0);
        chk(&mut bad, "to_bdt_days", e.to_bdt_days(), g(TimeScale::BDT), DAY_NS, dsw);
        if let Some(utc) = utc_of_tai(tai) {
            chk(&mut bad, "to_utc_seconds", e.to_utc_seconds(), utc, SEC, 1.0);
            chk(&mut bad, "to_utc_days", e.to_utc_days(), utc, DAY_NS, dsw);
            chk(&mut bad, "to_utc(unit)", e.to_utc(u), utc, un, sw);
            chk(&mut bad, "to_mjd_utc_days", e.to_mjd_utc_days(), utc + MJD_NS, DAY_NS, dsw);
            chk(&mut bad, "to_mjd_utc_seconds", e.to_mjd_utc_seconds(), utc + MJD_NS, SEC, 1.0);
            chk(&mut bad, "to_mjd_utc(unit)", e.to_mjd_utc(u), utc + MJD_NS, un, sw);
            chk(&mut bad, "to_jde_utc_days", e.to_jde_utc_days(), utc + JD_NS, DAY_NS, dsw);
            chk(&mut bad, "to_jde_utc_seconds", e.to_jde_utc_seconds(), utc + JD_NS, SEC, 1.0);
            chk(&mut bad, "to_unix_seconds", e.to_unix_seconds(), utc - UNIX_NS, SEC, 1.0);
            chk(&mut bad, "to_unix_milliseconds", e.to_unix_milliseconds(), utc - UNIX_NS, 1_000_000, 1e3);
            chk(&mut bad, "to_unix_days", e.to_unix_days(), utc - UNIX_NS, DAY_NS, dsw);
            chk(&mut bad, "to_unix(unit)", e.to_unix(u), utc - UNIX_NS, un, sw);
        }
        verdict(bad)
    }},
    // building an epoch from a JD / MJD / UNIX / seconds / days value and reading the same view back; and back to the instant
    Op { name: "epoch_float_roundtrip", sig: &[Ty::Dur, Ty::UTs], pre: |a| views_pre(a) && a[0].total().abs() < 3_000 * NPC, f: |a| {
        let ts = a[1].ts();
        let e = Epoch::from_duration(a[0].dur(), ts);
        let mut bad = vec![];
        // `v0`: the constant the constructor subtracts from the value first (15020 / 2415020.5 days for MJD / JDE): the float
        // difference has the precision of the LARGER of the value and the J1900-based count
        let mut rt = |name: &str, v: f64, back: Epoch, unit: i128, want_ts: TimeScale, view_back: f64, v0: f64| {
            let m = v.abs().max((v - v0).abs());
            let diff = dtotal((back - e).abs());
            if back.time_scale != want_ts {
                bad.push(format!("{}: time scale {:?}, expected {:?}", name, back.time_scale, want_ts));
            }
            if diff > back_tol(m, unit) {
                bad.push(format!("{}({:e}) is {} ns away from the epoch the value was read from (tolerance {} ns)", name, v, diff, back_tol(m, unit)));
            }
            // the constructor truncates to a whole nanosecond: allow 2 ns on top of the float tolerance
            if (view_back - v).abs() > K_ULP * ulp(m.max(1e9 / unit as f64)) + 2.0 / unit as f64 {
                bad.push(format!("{}({:e}) reads back as {:e}", name, v, view_back));
            }
        };
        let v = e.to_tai_seconds(); let b = Epoch::from_tai_seconds(v); rt("from_tai_seconds", v, b, SEC, TimeScale::TAI, b.to_tai_seconds(), 0.0);
        let v = e.to_tai_days(); let b = Epoch::from_tai_days(v); rt("from_tai_days", v, b, DAY_NS, TimeScale::TAI, b.to_tai_days(), 0.0);
        let v = e.to_mjd_tai_days(); let b = Epoch::from_mjd_tai(v); rt("from_mjd_tai", v, b, DAY_NS, TimeScale::TAI, b.to_mjd_tai_days(), 15_020.0);
        let v = e.to_jde_tai_days(); let b = Epoch::from_jde_tai(v); rt("from_jde_tai", v, b, DAY_NS, TimeScale::TAI, b.to_jde_tai_days(), 2_415_020.5);
        let v = e.to_tt_seconds(); let b = Epoch::from_tt_seconds(v); rt("from_tt_seconds", v, b, SEC, TimeScale::TT, b.to_tt_seconds(), 0.0);
        let v = e.to_gpst_seconds(); let b = Epoch::from_gpst_seconds(v); rt("from_gpst_seconds", v, b, SEC, TimeScale::GPST, b.to_gpst_seconds(), 0.0);
        let v = e.to_gpst_days(); let b = Epoch::from_gpst_days(v); rt("from_gpst_days", v, b, DAY_NS, TimeScale::GPST, b.to_gpst_days(), 0.0);
        let v = e.to_qzsst_seconds(); let b = Epoch::from_qzsst_seconds(v); rt("from_qzsst_seconds", v, b, SEC, TimeScale::QZSST, b.to_qzsst_seconds(), 0.0);
        let v = e.to_qzsst_days(); let b = Epoch::from_qzsst_days(v); rt("from_qzsst_days", v, b, DAY_NS, TimeScale::QZSST, b.to_qzsst_days(), 0.0);
        let v = e.to_gst_seconds(); let b = Epoch::from_gst_seconds(v); rt("from_gst_seconds", v, b, SEC, TimeScale::GST, b.to_gst_seconds(), 0.0);
        let v = e.to_gst_days(); let b = Epoch::from_gst_days(v); rt("from_gst_days", v, b, DAY_NS, TimeScale::GST, b.to_gst_days(), 0.0);
        let v = e.to_bdt_seconds(); let b = Epoch::from_bdt_seconds(v); rt("from_bdt_seconds", v, b, SEC, TimeScale::BDT, b.to_bdt_seconds(), 0.0);
        let v = e.to_bdt_days(); let b = Epoch::from_bdt_days(v); rt("from_bdt_days", v, b, DAY_NS, TimeScale::BDT, b.to_bdt_days(), 0.0);
        // MJD / JDE of the epoch's own count in each scale-specific constructor
        let own = |s: TimeScale| e.to_time_scale(s);
        for (s, name) in [(TimeScale::GPST, "gpst"), (TimeScale::QZSST, "qzsst"), (TimeScale::GST, "gst"), (TimeScale::BDT, "bdt")] {
            let c = dtotal(own(s).duration);
            let vm = ratio(c + MJD_NS, DAY_NS);
            let vj = ratio(c + JD_NS, DAY_NS);
            let (bm, bj) = match s {
                TimeScale::GPST => (Epoch::from_mjd_gpst(vm), Epoch::from_jde_gpst(vj)),
                TimeScale::QZSST => (Epoch::from_mjd_qzsst(vm), Epoch::from_jde_qzsst(vj)),
                TimeScale::GST => (Epoch::from_mjd_gst(vm), Epoch::from_jde_gst(vj)),
                _ => (Epoch::from_mjd_bdt(vm), Epoch::from_jde_bdt(vj)),
            };
            rt(&format!("from_mjd_{}", name), vm, bm, DAY_NS, s, ratio(dtotal(bm.duration) + MJD_NS, DAY_NS), 15_020.0);
            rt(&format!("from_jde_{}", name), vj, bj, DAY_NS, s, ratio(dtotal(bj.duration) + JD_NS, DAY_NS), 2_415_020.5);
        }
        let tai = a[0].total() + scale_zero(ts).unwrap();
        if utc_of_tai(tai).is_some() {
            let v = e.to_utc_seconds(); let b = Epoch::from_utc_seconds(v); rt("from_utc_seconds", v, b, SEC, TimeScale::UTC, b.to_utc_seconds(), 0.0);
            let v = e.to_utc_days(); let b = Epoch::from_utc_days(v); rt("from_utc_days", v, b, DAY_NS, TimeScale::UTC, b.to_utc_days(), 0.0);
            let v = e.to_mjd_utc_days(); let b = Epoch::from_mjd_utc(v); rt("from_mjd_utc", v, b, DAY_NS, TimeScale::UTC, b.to_mjd_utc_days(), 15_020.0);
            let v = e.to_jde_utc_days(); let b = Epoch::from_jde_utc(v); rt("from_jde_utc", v, b, DAY_NS, TimeScale::UTC, b.to_jde_utc_days(), 2_415_020.5);
            let v = e.to_unix_seconds(); let b = Epoch::from_unix_seconds(v); rt("from_unix_seconds", v, b, SEC, TimeScale::UTC, b.to_unix_seconds(), 0.0);
            let v = e.to_unix_milliseconds(); let b = Epoch::from_unix_milliseconds(v); rt("from_unix_milliseconds", v, b, 1_000_000, TimeScale::UTC, b.to_unix_milliseconds(), 0.0);
        }
        verdict(bad)
    }},
    // exact cases of the float constructors: whole seconds / eighths of a day whose product with the unit is below 2^53 ns
    Op { name: "epoch_float_ctors_exact", sig: &[Ty::I64, Ty::I64], pre: |_| true, f: |a| {
        let s = a[0].int().rem_euclid(18_000_001) - 9_000_000; // whole seconds, |s| x 1e9 < 2^53
        let k = a[1].int().rem_euclid(1601) - 800; // eighths of a day, |k/8| x 86400e9 < 2^53
        let (sv, dv) = (s as f64, k as f64 / 8.0);
        let (sn, dn) = (s * SEC, k * DAY_NS / 8);
        let got = [
            Epoch::from_tai_seconds(sv), Epoch::from_utc_seconds(sv), Epoch::from_tt_seconds(sv), Epoch::from_gpst_seconds(sv),
            Epoch::from_qzsst_seconds(sv), Epoch::from_gst_seconds(sv), Epoch::from_bdt_seconds(sv), Epoch::from_et_seconds(sv), Epoch::from_tdb_seconds(sv),
            Epoch::from_tai_days(dv), Epoch::from_utc_days(dv), Epoch::from_gpst_days(dv), Epoch::from_qzsst_days(dv), Epoch::from_gst_days(dv), Epoch::from_bdt_days(dv),
            Epoch::from_mjd_tai(15_020.0 + dv), Epoch::from_mjd_utc(15_020.0 + dv), Epoch::from_mjd_gpst(15_020.0 + dv), Epoch::from_mjd_qzsst(15_020.0 + dv),
            Epoch::from_mjd_gst(15_020.0 + dv), Epoch::from_mjd_bdt(15_020.0 + dv), Epoch::from_mjd_in_time_scale(15_020.0 + dv, TimeScale::TT),
            Epoch::from_jde_tai(2_415_020.5 + dv), Epoch::from_jde_utc(2_415_020.5 + dv), Epoch::from_jde_gpst(2_415_020.5 + dv), Epoch::from_jde_qzsst(2_415_020.5 + dv),
            Epoch::from_jde_gst(2_415_020.5 + dv), Epoch::from_jde_bdt(2_415_020.5 + dv), Epoch::from_jde_in_time_scale(2_415_020.5 + dv, TimeScale::TT),
            Epoch::from_unix_seconds(sv), Epoch::from_unix_milliseconds(sv * 1000.0),
        ];
        use TimeScale::*;
        let exp = [
            (sn, TAI), (sn, UTC), (sn, TT), (sn, GPST), (sn, QZSST), (sn, GST), (sn, BDT), (sn, ET), (sn, TDB),
            (dn, TAI), (dn, UTC), (dn, GPST), (dn, QZSST), (dn, GST), (dn, BDT),
            (dn, TAI), (dn, UTC), (dn, GPST), (dn, QZSST), (dn, GST), (dn, BDT), (dn, TT),
            (dn, TAI), (dn, UTC), (dn, GPST), (dn, QZSST), (dn, GST), (dn, BDT), (dn, TT),
            (sn + UNIX_NS, UTC), (sn + UNIX_NS, UTC),
        ];
        (got.iter().map(|e| format!("{} {:?}", show_parts(e.duration.to_parts()), e.time_scale)).collect::<Vec<_>>().join(" | "),
         exp.iter().map(|(t, s)| format!("{} {:?}", show_total(*t), s)).collect::<Vec<_>>().join(" | "))
    }},
    // ---------------------------------------------------------------- C20 / C09: day of year
    // (every scale with an integer calendar: the six uniform scales and UTC, whose count has no leap seconds in it)
    Op { name: "day_of_year", sig: &[Ty::Dur, Ty::Ts], pre: |a| !matches!(a[1].ts(), TimeScale::ET | TimeScale::TDB) && (a[0].total() + greg_zero(a[1].ts())).abs() < 3_000_000 * DAY_NS, f: |a| {
        let ts = a[1].ts();
        let e = Epoch::from_duration(a[0].dur(), ts);
        let g = a[0].total() + greg_zero(ts);
        let (y, _, _) = civil_of_day(g.div_euclid(DAY_NS));
        let start = day_index(y, 1, 1) * DAY_NS;
        let mut bad = vec![];
        let (yy, doy) = e.year_days_of_year();
        if yy as i128 != y || e.year() as i128 != y {
            bad.push(format!("year {} / {}, expected {}", yy, e.year(), y));
        }
        chk(&mut bad, "day_of_year", doy, g - start + DAY_NS, DAY_NS, 1.0);
        if e.day_of_year() != doy {
            bad.push("day_of_year() and year_days_of_year().1 differ".to_string());
        }
        if dtotal(e.duration_in_year()) != g - start {
            bad.push(format!("duration_in_year = {} ns, expected {} ns", dtotal(e.duration_in_year()), g - start));
        }
        let back = Epoch::from_day_of_year(y as i32, doy, ts);
        let diff = dtotal((back - e).abs());
        if back.time_scale != ts || diff > back_tol(doy, DAY_NS) {
            bad.push(format!("from_day_of_year({}, {:e}) is {} ns away from the epoch ({:?})", y, doy, diff, back.time_scale));
        }
        let jan1 = Epoch::from_gregorian(y as i32, 1, 1, 0, 0, 0, 0, ts);
        if jan1.day_of_year() != 1.0 {
            bad.push(format!("1 January 00:00 of {} is day {:e}, expected 1.0", y, jan1.day_of_year()));
        }
        let k = (a[0].total().rem_euclid(365)) as f64 + 1.0; // whole day numbers are exact
        let b2 = Epoch::from_day_of_year(y as i32, k, ts);
        if dtotal(b2.duration) != start + (k as i128 - 1) * DAY_NS - greg_zero(ts) {
            bad.push(format!("from_day_of_year({}, {}) = {} ns, expected {} ns", y, k, dtotal(b2.duration), start + (k as i128 - 1) * DAY_NS - greg_zero(ts)));
        }
        verdict(bad)
    }},

    // ---------------------------------------------------------------- C11: text form of a duration (bounded stand-in: text is
    // outside both verifiers).  Display prints exactly the non-zero components of the decomposition with their unit names and a
    // single leading minus sign ("0 ns" for zero); parsing that text, and the serde round trip, return the identical duration.
    Op { name: "duration_text", sig: &[Ty::Dur], pre: |_| true, f: |a| {
        use core::str::FromStr;
        let t = clamp(a[0].total());
        let d = Duration::from_total_nanoseconds(t);
        let m = t.abs();
        let comps = [m / DAY_NS, (m / 3_600_000_000_000) % 24, (m / 60_000_000_000) % 60, (m / SEC) % 60, (m / 1_000_000) % 1000, (m / 1000) % 1000, m % 1000];
        let names = [if comps[0] > 1 { "days" } else { "day" }, "h", "min", "s", "ms", "μs", "ns"];
        let body: Vec<String> = comps.iter().zip(names.iter()).filter(|(v, _)| **v > 0).map(|(v, n)| format!("{} {}", v, n)).collect();
        let want = if t == 0 { "0 ns".to_string() } else { format!("{}{}", if t < 0 { "-" } else { "" }, body.join(" ")) };
        let text = format!("{}", d);
        let parsed = Duration::from_str(&text).map(|x| show_parts(x.to_parts())).unwrap_or_else(|e| format!("parse error {:?}", e));
        let js = serde_json::to_string(&d).unwrap_or_else(|e| format!("serialize error {}", e));
        let back = serde_json::from_str::<Duration>(&js).map(|x| show_parts(x.to_parts())).unwrap_or_else(|e| format!("deserialize error {}", e));
        (format!("{} | {} | {}", text, parsed, back), format!("{} | {} | {}", want, show_total(t), show_total(t)))
    }},
    // "Parsing also accepts the documented unit spellings, fractional values and [+-]HH:MM[:SS] offsets with the value they denote"
    Op { name: "duration_parse_forms", sig: &[Ty::U32, Ty::U8, Ty::U8, Ty::Bool], pre: |_| true, f: |a| {
        use core::str::FromStr;
        const SPELL: [(&str, i128); 25] = [("d", DAY_NS), ("days", DAY_NS), ("day", DAY_NS), ("h", 3_600_000_000_000), ("hours", 3_600_000_000_000),
            ("hour", 3_600_000_000_000), ("hr", 3_600_000_000_000), ("min", 60_000_000_000), ("mins", 60_000_000_000), ("minute", 60_000_000_000),
            ("minutes", 60_000_000_000), ("s", SEC), ("second", SEC), ("seconds", SEC), ("sec", SEC), ("ms", 1_000_000), ("millisecond", 1_000_000),
            ("milliseconds", 1_000_000), ("μs", 1000), ("us", 1000), ("microsecond", 1000), ("microseconds", 1000), ("ns", 1), ("nanosecond", 1), ("nanoseconds", 1)];
        let v = a[0].int() % 1_000_000;
        let (sp, w) = SPELL[(a[1].int() % 25) as usize];
        let (sp2, w2) = SPELL[(a[2].int() % 25) as usize];
        let neg = a[3].boolean();
        let sg: i128 = if neg { -1 } else { 1 };
        let pfx = if neg { "-" } else { "" };
        let show = |r: Result<Duration, hifitime::HifitimeError>| r.map(|x| show_parts(x.to_parts())).unwrap_or_else(|e| format!("error {:?}", e));
        let mut got = vec![];
        let mut want = vec![];
        // whole value, one unit
        got.push(show(Duration::from_str(&format!("{}{} {}", pfx, v, sp)))); want.push(show_total(sg * v * w));
        // two components with different units
        if w != w2 {
            got.push(show(Duration::from_str(&format!("{}{} {} {} {}", pfx, v, sp, a[2].int(), sp2)))); want.push(show_total(sg * (v * w + a[2].int() * w2)));
        }
        // fractional values that are exact in binary: halves and quarters of units of at least 4 ns
        if w >= 4 {
            got.push(show(Duration::from_str(&format!("{}{}.5 {}", pfx, v, sp)))); want.push(show_total(sg * (v * w + w / 2)));
            got.push(show(Duration::from_str(&format!("{}{}.25 {}", pfx, v, sp)))); want.push(show_total(sg * (v * w + w / 4)));
        }
        // offsets [+-]HH:MM and [+-]HH:MM:SS
        let (hh, mm, ss) = (a[0].int() % 24, a[1].int() % 60, a[2].int() % 60);
        let sign_c = if neg { '-' } else { '+' };
        got.push(show(Duration::from_str(&format!("{}{:02}:{:02}", sign_c, hh, mm)))); want.push(show_total(sg * (hh * 3_600_000_000_000 + mm * 60_000_000_000)));
        got.push(show(Duration::from_str(&format!("{}{:02}:{:02}:{:02}", sign_c, hh, mm, ss)))); want.push(show_total(sg * (hh * 3_600_000_000_000 + mm * 60_000_000_000 + ss * SEC)));
        (got.join(" | "), want.join(" | "))
    }},
    // ---------------------------------------------------------------- C09: default text form of an epoch (bounded stand-in):
    // YYYY-MM-DDTHH:MM:SS, nine fractional digits only when non-zero, then the scale name -- the fields of the epoch in its own
    // scale; {:x} the same in TAI, {:X} in TT, {:?} in UTC
    Op { name: "epoch_display", sig: &[Ty::Dur, Ty::Ts], pre: |a| a[0].total().abs() < 30_000 * NPC && (a[0].total() + greg_zero(a[1].ts())).abs() < 3_000_000 * DAY_NS, f: |a| {
        let ts = a[1].ts();
        let e = Epoch::from_duration(a[0].dur(), ts);
        let name = |s: TimeScale| match s { TimeScale::TAI => "TAI", TimeScale::TT => "TT", TimeScale::ET => "ET", TimeScale::TDB => "TDB", TimeScale::UTC => "UTC",
            TimeScale::GPST => "GPST", TimeScale::GST => "GST", TimeScale::BDT => "BDT", TimeScale::QZSST => "QZSST", _ => "?" };
        let text_of = |g: i128, s: TimeScale| {
            let (y, mo, d) = civil_of_day(g.div_euclid(DAY_NS));
            let tod = g.rem_euclid(DAY_NS);
            let (h, mi, sec, ns) = (tod / 3_600_000_000_000, (tod / 60_000_000_000) % 60, (tod / SEC) % 60, tod % SEC);
            if ns == 0 { format!("{:04}-{:02}-{:02}T{:02}:{:02}:{:02} {}", y, mo, d, h, mi, sec, name(s)) }
            else { format!("{:04}-{:02}-{:02}T{:02}:{:02}:{:02}.{:09} {}", y, mo, d, h, mi, sec, ns, name(s)) }
        };
        // ET, TDB, UTC: only the forms in the epoch's own scale (no conversion involved: the calendar is integer arithmetic)
        if scale_zero(ts).is_none() || !views_pre(a) {
            let own = text_of(a[0].total() + greg_zero(ts), ts);
            return (format!("{} | {}", e, e.to_gregorian_str(ts)), format!("{} | {}", own, own));
        }
        let tai = a[0].total() + scale_zero(ts).unwrap();
        let mut got = vec![format!("{}", e), format!("{:x}", e), format!("{:X}", e), e.to_gregorian_str(ts)];
        let mut want = vec![text_of(a[0].total() + greg_zero(ts), ts), text_of(tai, TimeScale::TAI), text_of(tai - scale_zero(TimeScale::TT).unwrap(), TimeScale::TT),
                            text_of(a[0].total() + greg_zero(ts), ts)];
        if let Some(u) = utc_of_tai(tai) {
            got.push(format!("{:?}", e));
            want.push(text_of(u, TimeScale::UTC));
        }
        (got.join(" | "), want.join(" | "))
    }},
];
