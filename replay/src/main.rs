// vx-replay: replays concrete inputs on the REAL hifitime crate (path dependency on /repo, debug profile,
// overflow checks on) and compares with an independent oracle written over i128 / civil-calendar
// arithmetic from the property statements.  It never decides a property: the verifier does.  It only
// decorates a failed obligation with a concrete failing input, and re-executes recorded known findings.
//
//   vx-replay run '<descriptor json>'          -> {"op","args","real","expected","agrees"}
//   vx-replay falsify <op> <seed> <iters>       -> first disagreeing descriptor, or {"found":false,"tried":N}
//   vx-replay ops                               -> list of ops

use hifitime::{Duration, Epoch, TimeScale, TimeSeries, Unit, Weekday};
use serde_json::{json, Value};
use std::panic;

mod oracle;
use oracle::*;

#[derive(Clone, Copy, Debug, PartialEq)]
pub enum Ty {
    Dur,
    I64,
    I128,
    U64,
    I16,
    I32,
    U8,
    I8,
    U32,
    Unit,
    Ts,
    UTs, // uniform time scale
    Wd,
    Bool,
}

#[derive(Clone, Debug)]
pub enum Arg {
    Dur(i16, u64),
    I(i128),
    Unit(u8),
    Ts(u8),
    Wd(u8),
    Bool(bool),
}

impl Arg {
    pub fn dur(&self) -> Duration {
        match self {
            Arg::Dur(c, n) => Duration::from_parts(*c, *n),
            _ => panic!("arg is not a duration"),
        }
    }
    pub fn total(&self) -> i128 {
        match self {
            Arg::Dur(c, n) => clamp(*c as i128 * NPC + *n as i128),
            _ => panic!("arg is not a duration"),
        }
    }
    pub fn int(&self) -> i128 {
        match self {
            Arg::I(v) => *v,
            _ => panic!("arg is not an integer"),
        }
    }
    pub fn unit(&self) -> Unit {
        match self {
            Arg::Unit(u) => UNITS[*u as usize % 9],
            _ => panic!("arg is not a unit"),
        }
    }
    pub fn ts(&self) -> TimeScale {
        match self {
            Arg::Ts(u) => SCALES[*u as usize % 9],
            _ => panic!("arg is not a time scale"),
        }
    }
    pub fn wd(&self) -> Weekday {
        match self {
            Arg::Wd(u) => Weekday::from(*u % 7),
            _ => panic!("arg is not a weekday"),
        }
    }
    pub fn boolean(&self) -> bool {
        match self {
            Arg::Bool(b) => *b,
            _ => panic!("arg is not a bool"),
        }
    }
    fn to_json(&self) -> Value {
        match self {
            Arg::Dur(c, n) => json!({"centuries": c, "nanoseconds": n}),
            Arg::I(v) => json!(v.to_string()),
            Arg::Unit(u) => json!(format!("{:?}", UNITS[*u as usize % 9])),
            Arg::Ts(u) => json!(format!("{:?}", SCALES[*u as usize % 9])),
            Arg::Wd(u) => json!(format!("{:?}", Weekday::from(*u % 7))),
            Arg::Bool(b) => json!(b),
        }
    }
    fn from_json(ty: Ty, v: &Value) -> Arg {
        match ty {
            Ty::Dur => Arg::Dur(
                v["centuries"].as_i64().expect("centuries") as i16,
                v["nanoseconds"].as_u64().expect("nanoseconds"),
            ),
            Ty::Unit => {
                let s = v.as_str().expect("unit name");
                Arg::Unit(UNITS.iter().position(|u| format!("{:?}", u) == s).expect("unit") as u8)
            }
            Ty::Ts | Ty::UTs => {
                let s = v.as_str().expect("scale name");
                Arg::Ts(SCALES.iter().position(|u| format!("{:?}", u) == s).expect("scale") as u8)
            }
            Ty::Wd => {
                let s = v.as_str().expect("weekday name");
                Arg::Wd((0..7u8).find(|u| format!("{:?}", Weekday::from(*u)) == s).expect("weekday"))
            }
            Ty::Bool => Arg::Bool(v.as_bool().expect("bool")),
            _ => Arg::I(match v {
                Value::String(s) => s.parse::<i128>().expect("integer string"),
                Value::Number(n) => n.as_i64().map(|x| x as i128).or(n.as_u64().map(|x| x as i128)).expect("integer"),
                _ => panic!("integer expected"),
            }),
        }
    }
}

pub const UNITS: [Unit; 9] = [
    Unit::Nanosecond,
    Unit::Microsecond,
    Unit::Millisecond,
    Unit::Second,
    Unit::Minute,
    Unit::Hour,
    Unit::Day,
    Unit::Week,
    Unit::Century,
];
pub const SCALES: [TimeScale; 9] = [
    TimeScale::TAI,
    TimeScale::TT,
    TimeScale::GPST,
    TimeScale::GST,
    TimeScale::BDT,
    TimeScale::QZSST,
    TimeScale::UTC,
    TimeScale::ET,
    TimeScale::TDB,
];
pub const N_UNIFORM: u8 = 6;

pub struct Op {
    pub name: &'static str,
    pub sig: &'static [Ty],
    /// precondition on the inputs under which the op is specified (the `requires` of the contract)
    pub pre: fn(&[Arg]) -> bool,
    /// returns (real result, oracle result) rendered canonically
    pub f: fn(&[Arg]) -> (String, String),
}

mod ops;
mod ops_float;

// ------------------------------------------------------------------------------------------------
// tiny deterministic PRNG (splitmix64)
pub struct Rng(pub u64);
impl Rng {
    pub fn next(&mut self) -> u64 {
        self.0 = self.0.wrapping_add(0x9E3779B97F4A7C15);
        let mut z = self.0;
        z = (z ^ (z >> 30)).wrapping_mul(0xBF58476D1CE4E5B9);
        z = (z ^ (z >> 27)).wrapping_mul(0x94D049BB133111EB);
        z ^ (z >> 31)
    }
    pub fn below(&mut self, n: u64) -> u64 {
        self.next() % n
    }
}

fn gen_dur(rng: &mut Rng) -> Arg {
    const CS: [i16; 15] = [i16::MIN, i16::MIN + 1, -32766, -4, -3, -2, -1, 0, 1, 2, 3, 4, 32765, i16::MAX - 1, i16::MAX];
    let npc = NPC as u64;
    let ns: [u64; 16] = [0, 1, 2, 5, 5_300, 600_000, 5_000_700, 999_999, 1_000_000_000, 86_400_000_000_000, npc / 2, npc / 2 + 1, npc - 2, npc - 1, npc, npc + 1];
    if rng.below(5) == 0 {
        // instants within +/- 45 s of an entry of the IERS table (UTC or TAI count), at nanosecond resolution
        let tab = leap_table();
        let (ts, _) = tab[rng.below(tab.len() as u64) as usize];
        let off = rng.below(90_000_000_001) as i128 - 45_000_000_000;
        let off = if rng.below(3) == 0 { (off / 1_000_000_000) * 1_000_000_000 + [0i128, 1, -1, 999_999_999][rng.below(4) as usize] } else { off };
        let (c, n) = parts_of(ts * 1_000_000_000 + off);
        return Arg::Dur(c, n);
    }
    let c = if rng.below(4) == 0 { rng.next() as i16 } else { CS[rng.below(15) as usize] };
    let n = match rng.below(6) {
        0 => rng.next() % (npc + 1),
        1 => (rng.next() % 200_000) * 1_000_000_000 * 86_400 / 86_400, // whole seconds near zero
        2 => rng.next(), // not normalized on purpose: constructor input
        _ => ns[rng.below(16) as usize],
    };
    Arg::Dur(c, n)
}

fn gen_int(rng: &mut Rng, lo: i128, hi: i128) -> Arg {
    let special: [i128; 23] = [
        0, 1, -1, 2, -2, 3, -3, 7, -7, 60, 1000, 86_400, 1_000_000_000,
        i64::MAX as i128, i64::MIN as i128, i64::MAX as i128 - 1, i64::MIN as i128 + 1,
        NPC, -NPC, 2 * NPC, -2 * NPC, NPC - 1, -NPC + 1,
    ];
    let mut v = match rng.below(5) {
        0 => {
            let a = rng.next() as i128;
            let b = rng.next() as i128;
            ((a << 64) | b) >> (rng.below(127) as u32)
        }
        1 => (rng.next() as i64) as i128,
        2 => (rng.below(4001) as i128) - 2000,
        _ => special[rng.below(23) as usize],
    };
    if rng.below(8) == 0 {
        v = if rng.below(2) == 0 { lo + rng.below(3) as i128 } else { hi - rng.below(3) as i128 };
    }
    if v < lo || v > hi {
        // fold into range
        let span = hi - lo + 1;
        v = lo + (v - lo).rem_euclid(span);
    }
    Arg::I(v)
}

pub fn gen_arg(ty: Ty, rng: &mut Rng) -> Arg {
    match ty {
        Ty::Dur => gen_dur(rng),
        Ty::I64 => gen_int(rng, i64::MIN as i128, i64::MAX as i128),
        Ty::I128 => gen_int(rng, i128::MIN, i128::MAX),
        Ty::U64 => gen_int(rng, 0, u64::MAX as i128),
        Ty::I16 => gen_int(rng, i16::MIN as i128, i16::MAX as i128),
        Ty::I32 => match rng.below(10) {
            0..=3 => Arg::I(rng.below(10_200) as i128 - 100),
            4..=5 => Arg::I([1900, 1899, 1901, 1972, 1980, 1999, 2000, 2004, 2006, 2012, 2016, 2017, 2020, 2100, 2400, 1600, 1, 0, -1, 9999, 4, 100, 400][rng.below(23) as usize]),
            6..=7 => Arg::I(rng.below(200_001) as i128 - 100_000),
            _ => gen_int(rng, i32::MIN as i128, i32::MAX as i128),
        },
        Ty::U8 => match rng.below(10) {
            0..=4 => Arg::I(rng.below(33) as i128),
            5..=7 => Arg::I(rng.below(62) as i128),
            _ => gen_int(rng, 0, 255),
        },
        Ty::I8 => gen_int(rng, -128, 127),
        Ty::U32 => match rng.below(10) {
            0..=3 => Arg::I(rng.below(1_000_000_001) as i128),
            4..=5 => Arg::I([0, 1, 999_999_999, 1_000_000_000, 1_000_000_001, 500_000_000][rng.below(6) as usize]),
            _ => gen_int(rng, 0, u32::MAX as i128),
        },
        Ty::Unit => Arg::Unit(rng.below(9) as u8),
        Ty::Ts => Arg::Ts(rng.below(9) as u8),
        Ty::UTs => Arg::Ts(rng.below(N_UNIFORM as u64) as u8),
        Ty::Wd => Arg::Wd(rng.below(7) as u8),
        Ty::Bool => Arg::Bool(rng.below(2) == 1),
    }
}

fn run_op(op: &Op, args: &[Arg], ignore_pre: bool) -> Value {
    let args_v: Vec<Value> = args.iter().map(|a| a.to_json()).collect();
    if !ignore_pre && !(op.pre)(args) {
        return json!({"op": op.name, "args": args_v, "outside_precondition": true, "agrees": true});
    }
    let a2 = args.to_vec();
    let f = op.f;
    let res = panic::catch_unwind(move || f(&a2));
    match res {
        Ok((real, expected)) => {
            let agrees = real == expected;
            json!({"op": op.name, "args": args_v, "real": real, "expected": expected, "agrees": agrees})
        }
        Err(e) => {
            let msg = if let Some(s) = e.downcast_ref::<&str>() {
                s.to_string()
            } else if let Some(s) = e.downcast_ref::<String>() {
                s.clone()
            } else {
                "panic".to_string()
            };
            json!({"op": op.name, "args": args_v, "real": format!("PANIC: {}", msg), "expected": "no panic", "agrees": false})
        }
    }
}

fn find_op(name: &str) -> &'static Op {
    ops::OPS.iter().chain(ops_float::OPS_FLOAT.iter()).find(|o| o.name == name).unwrap_or_else(|| {
        eprintln!("unknown op {}", name);
        std::process::exit(2)
    })
}

fn main() {
    let argv: Vec<String> = std::env::args().collect();
    panic::set_hook(Box::new(|_| {}));
    match argv.get(1).map(|s| s.as_str()) {
        Some("ops") => {
            for o in ops::OPS.iter().chain(ops_float::OPS_FLOAT.iter()) {
                println!("{} {:?}", o.name, o.sig);
            }
        }
        Some("run") => {
            let d: Value = serde_json::from_str(&argv[2]).expect("descriptor json");
            let op = find_op(d["op"].as_str().expect("op"));
            let args: Vec<Arg> = op
                .sig
                .iter()
                .zip(d["args"].as_array().expect("args").iter())
                .map(|(t, v)| Arg::from_json(*t, v))
                .collect();
            if args.len() != op.sig.len() {
                eprintln!("arity mismatch");
                std::process::exit(2);
            }
            println!("{}", run_op(op, &args, d["ignore_pre"].as_bool().unwrap_or(false)));
        }
        Some("falsify") => {
            let op = find_op(&argv[2]);
            let seed: u64 = argv.get(3).and_then(|s| s.parse().ok()).unwrap_or(1);
            let iters: u64 = argv.get(4).and_then(|s| s.parse().ok()).unwrap_or(200_000);
            let mut rng = Rng(seed ^ 0xC0FFEE);
            let trace = std::env::var("VX_TRACE").ok();
            let mut tried = 0u64;
            let mut in_pre = 0u64;
            for _ in 0..iters {
                let args: Vec<Arg> = op.sig.iter().map(|t| gen_arg(*t, &mut rng)).collect();
                tried += 1;
                if let Some(path) = &trace {
                    // crash isolation: record the input BEFORE running it (a stack overflow / abort cannot be caught)
                    let args_v: Vec<Value> = args.iter().map(|a| a.to_json()).collect();
                    let _ = std::fs::write(path, json!({"op": op.name, "args": args_v, "tried": tried}).to_string());
                }
                let r = run_op(op, &args, false);
                if r.get("outside_precondition").is_none() {
                    in_pre += 1;
                }
                if r["agrees"] == json!(false) {
                    let mut r = r;
                    r["found"] = json!(true);
                    r["tried"] = json!(tried);
                    println!("{}", r);
                    return;
                }
            }
            println!("{}", json!({"found": false, "op": op.name, "tried": tried, "inside_precondition": in_pre}));
        }
        Some("exhaust-gregorian") => {
            // every calendar day of years y0..=y1, three times of day, two scales: build -> decompose -> compare (bounded, exhaustive)
            let y0: i128 = argv.get(2).and_then(|s| s.parse().ok()).unwrap_or(1);
            let y1: i128 = argv.get(3).and_then(|s| s.parse().ok()).unwrap_or(9999);
            let op = find_op("gregorian_roundtrip");
            let mut n = 0u64;
            for y in y0..=y1 {
                for mo in 1..=12 {
                    for d in 1..=month_len(y, mo) {
                        for (h, mi, s, ns) in [(0, 0, 0, 0), (12, 0, 0, 0), (23, 59, 59, 999_999_999)] {
                            for ts in [0u8, 2] {
                                let args = vec![Arg::I(y), Arg::I(mo), Arg::I(d), Arg::I(h), Arg::I(mi), Arg::I(s), Arg::I(ns), Arg::Ts(ts)];
                                let r = run_op(op, &args, false);
                                n += 1;
                                if r["agrees"] == json!(false) {
                                    println!("{}", r);
                                    std::process::exit(1);
                                }
                            }
                        }
                    }
                }
            }
            println!("{}", json!({"found": false, "op": "gregorian_roundtrip", "exhaustive": format!("years {}..={}", y0, y1), "tried": n}));
        }
        _ => {
            eprintln!("usage: vx-replay run <json> | falsify <op> <seed> <iters> | ops");
            std::process::exit(2);
        }
    }
    let _ = (Epoch::from_tai_duration(Duration::ZERO), TimeSeries::inclusive);
}
