#!/bin/bash
# Runs the repository's pinned test suite (the command of /root/.vp/BASELINE.json) with no verification cfg set.
# usage: run_baseline.sh [repo-dir]
R=${1:-/repo}
cd "$R" || exit 2
export CARGO_NET_OFFLINE=true
if [ -f /w/lib/nextest.toml ] && command -v cargo-nextest >/dev/null; then
  cargo nextest run --workspace --no-fail-fast --tool-config-file pb:/w/lib/nextest.toml --profile pb --test-threads 8 --offline 2>&1 | tail -15
  exit ${PIPESTATUS[0]}
else
  cargo test --workspace --no-fail-fast --offline 2>&1 | grep -E "^test result|FAILED|failed" | tail -30
  exit ${PIPESTATUS[0]}
fi
