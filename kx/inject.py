#!/usr/bin/env python3
"""kx/inject.py -- make a scratch copy of /repo for `cargo kani` and inject the harness module.

Mechanical edits to the COPY only (nothing in /repo is touched):
  (i)   `#[cfg(kani)] mod verif_kx;` appended to src/lib.rs, kx/harness/*.rs copied to src/verif_kx/
  (ii)  function contracts from kx/contracts.json inserted in front of the named fns
  (iii) "snafu/backtrace" removed from the `std` feature list of the copy's Cargo.toml (backtrace 0.3.76 does not
        compile under Kani's toolchain; the feature only adds backtraces to error values)
"""
import json
import os
import re
import shutil
import subprocess
import sys

HERE = os.path.dirname(os.path.abspath(__file__))
VERIF = os.path.dirname(HERE)
REPO = os.environ.get("VERIF_REPO", "/repo")


def make_copy(dst):
    if os.path.exists(dst):
        shutil.rmtree(dst)
    os.makedirs(dst)
    for name in os.listdir(REPO):
        if name in ("target", ".git", "benches", "examples", "tests"):
            continue
        s = os.path.join(REPO, name)
        d = os.path.join(dst, name)
        if os.path.isdir(s):
            shutil.copytree(s, d)
        else:
            shutil.copy2(s, d)
    # (iii)
    ct = open(os.path.join(dst, "Cargo.toml")).read()
    ct2 = ct.replace(', "snafu/backtrace"', "").replace('"snafu/backtrace", ', "").replace('"snafu/backtrace"', "")
    # benches are not copied: drop their [[bench]] sections
    ct2 = re.sub(r"\[\[bench\]\][^\[]*", "", ct2)
    open(os.path.join(dst, "Cargo.toml"), "w").write(ct2)
    os.makedirs(os.path.join(dst, ".cargo"), exist_ok=True)
    open(os.path.join(dst, ".cargo", "config.toml"), "w").write("[net]\noffline = true\n")
    # (i)
    hd = os.path.join(dst, "src", "verif_kx")
    os.makedirs(hd)
    mods = []
    for fn in sorted(os.listdir(os.path.join(HERE, "harness"))):
        if fn.endswith(".rs"):
            shutil.copy2(os.path.join(HERE, "harness", fn), os.path.join(hd, fn))
            if fn != "mod.rs":
                mods.append(fn[:-3])
    if not os.path.exists(os.path.join(hd, "mod.rs")):
        open(os.path.join(hd, "mod.rs"), "w").write("".join(f"pub mod {m};\n" for m in mods))
    with open(os.path.join(dst, "src", "lib.rs"), "a") as fh:
        fh.write("\n#[cfg(kani)]\nmod verif_kx;\n")
    # (ii)
    cpath = os.path.join(HERE, "contracts.json")
    injected = []
    if os.path.exists(cpath):
        for c in json.load(open(cpath)):
            p = os.path.join(dst, c["file"])
            txt = open(p).read()
            pat = c["anchor"]
            if txt.count(pat) != 1:
                raise SystemExit(f"kx-inject: anchor lost: {c['file']}: `{pat}` occurs {txt.count(pat)} times")
            attrs = "".join(f"    #[cfg_attr(kani, {a})]\n" for a in c["attrs"])
            i = txt.index(pat)
            # insert before the line containing the anchor
            ls = txt.rfind("\n", 0, i) + 1
            txt = txt[:ls] + attrs + txt[ls:]
            open(p, "w").write(txt)
            injected.append(c["name"])
    return injected


if __name__ == "__main__":
    print(make_copy(sys.argv[1]))
