#!/usr/bin/env python3
"""kx/kx.py -- engine 2: run groups of Kani harnesses on an injected scratch copy of the real crate.

run_group(group, tier) -> {"group", "status": ok|undecided, "reason", "harnesses": [...], "failures": [...], "cmd", "assumptions"}
  status ok        every harness of the group produced a verdict (SUCCESSFUL or FAILED)
  status undecided compile error, timeout, out of memory, unsatisfied cover (vacuity), missing harness: exit 2 upstream
Results are cached under build/cache keyed by the content of /repo/src, /repo/Cargo.toml, kx/harness, kx/contracts.json.
"""
import hashlib
import json
import os
import re
import shutil
import signal
import subprocess
import sys
import tempfile
import time

HERE = os.path.dirname(os.path.abspath(__file__))
VERIF = os.path.dirname(HERE)
BUILD = os.path.join(VERIF, "build")
REPO = os.environ.get("VERIF_REPO", "/repo")
sys.path.insert(0, HERE)
import inject  # noqa: E402

GROUPS = json.load(open(os.path.join(HERE, "groups.json")))


def tree_hash(group=None):
    """hash of everything a group's verdict can depend on: the source files in the static call closure of its harnesses
    (declared, generously, under `deps` in groups.json; default: all of src), its harness files, the injected contracts and
    this driver.  A change elsewhere in the crate does not invalidate the group's cached verdict."""
    h = hashlib.sha256()
    cfg = GROUPS.get(group, {}) if group else {}
    roots = [os.path.join(REPO, d) for d in cfg.get("deps", ["src", "Cargo.toml"])]
    files = [os.path.join(HERE, "contracts.json"), os.path.join(HERE, "kx.py"), os.path.join(HERE, "inject.py")]
    files += [os.path.join(HERE, "harness", f) for f in cfg.get("harness_files", sorted(os.listdir(os.path.join(HERE, "harness"))))]
    h.update(json.dumps(cfg, sort_keys=True).encode())
    for r in roots:
        if os.path.isdir(r):
            for dp, dn, fn in sorted(os.walk(r)):
                dn.sort()
                for f in sorted(fn):
                    files.append(os.path.join(dp, f))
        else:
            files.append(r)
    for f in files:
        h.update(f.encode())
        if os.path.exists(f):
            h.update(open(f, "rb").read())
        else:
            h.update(b"<missing>")
    return h.hexdigest()[:24]


def parse_output(out, names):
    """split cargo-kani output per harness"""
    res = {}
    if re.search(r"^Thread \d+: Checking harness ", out, re.M):
        # parallel (-j) terse output: de-interleave by thread
        cur = {}      # thread -> harness
        texts = {}    # harness -> text
        active = None
        for ln in out.splitlines():
            m = re.match(r"Thread (\d+): Checking harness (\S+?)\.\.\.", ln)
            if m:
                cur[m.group(1)] = m.group(2)
                texts.setdefault(m.group(2), "")
                active = None
                continue
            m = re.match(r"Thread (\d+): ?(.*)$", ln)
            if m and m.group(1) in cur:
                active = cur[m.group(1)]
                texts[active] += m.group(2) + "\n"
                continue
            if ln.startswith("Manual Harness Summary") or ln.startswith("Complete - "):
                active = None
            if active:
                texts[active] += ln + "\n"
        out = "".join(f"\nChecking harness {h}...\n{t}" for h, t in texts.items())
    blocks = re.split(r"\nChecking harness ", "\n" + out)
    for b in blocks[1:]:
        name = b.split("...")[0].strip().split()[0]
        short = name.split("::")[-1]
        verdict = None
        m = re.search(r"VERIFICATION:- (SUCCESSFUL|FAILED)", b)
        if m:
            verdict = m.group(1)
        failed = [(" ".join(m[0].split()), m[1], m[2]) for m in re.findall(r"Failed Checks: (.*?)\n\s*File: \"([^\"]*)\", line (\d+)", b, re.S)]
        tm = re.search(r"Verification Time: ([0-9.]+)s", b)
        covers = re.search(r"\*\* (\d+) of (\d+) cover properties satisfied", b)
        unwind_fail = "unwinding assertion" in b and re.search(r"unwinding assertion[^\n]*\n[^\n]*FAILURE", b) is not None
        concrete = None
        cm = re.search(r"Concrete playback unit test for `[^`]*`:\n```\n(.*?)```", b, re.S)
        if cm:
            concrete = cm.group(1)[:4000]
        res[short] = {"name": short, "verdict": verdict, "failed_checks": failed, "seconds": float(tm.group(1)) if tm else None,
                      "covers": (int(covers.group(1)), int(covers.group(2))) if covers else None, "unwind_failure": unwind_fail,
                      "concrete": concrete, "tail": b[-2500:]}
    return res


def run_group(group, tier="quick"):
    cfg = GROUPS[group]
    harnesses = [h for h in cfg["harnesses"] if tier in h.get("tiers", ["quick", "thorough"])]
    out = {"group": group, "status": "ok", "reason": "", "harnesses": [], "failures": [], "cmd": "",
           "assumptions": cfg.get("assumptions", [])}
    if not harnesses:
        return out
    os.makedirs(os.path.join(BUILD, "cache"), exist_ok=True)
    key = tree_hash(group)
    cpath = os.path.join(BUILD, "cache", f"kani-{group}-{tier}-{key}.json")
    raw = None
    if os.path.exists(cpath):
        try:
            raw = json.load(open(cpath))
            raw["cached"] = True
        except Exception:
            raw = None
    if raw is None:
        scratch = tempfile.mkdtemp(prefix=f"kx-{group}-", dir=os.environ.get("VERIF_SCRATCH", "/tmp"))
        try:
            try:
                injected = inject.make_copy(scratch)
            except SystemExit as e:
                out.update(status="undecided", reason=str(e))
                return out
            base = ["-Z", "function-contracts", "-Z", "stubbing"] + cfg.get("flags", [])
            env = dict(os.environ, CARGO_NET_OFFLINE="true", CARGO_TARGET_DIR=os.path.join(BUILD, "kani-target"))
            timeout = cfg.get("timeout", 900) * (3 if tier == "thorough" else 1)

            def invoke(names, playback):
                cmd = ["cargo", "kani"] + base + (["-Z", "concrete-playback", "--concrete-playback=print"] if playback else [])
                for n in names:
                    cmd += ["--harness", n]
                if len(names) > 1 and not playback:
                    cmd += ["-j", str(cfg.get("jobs", min(8, len(names)))), "--output-format", "terse"]
                t0 = time.time()
                # own session, so that a timeout kills exactly this run's cargo-kani / kani-driver / cbmc / solver processes
                # (a global `pkill cbmc` would also kill other checks running at the same time and make them look FAILED)
                proc = subprocess.Popen(cmd, cwd=scratch, env=env, stdout=subprocess.PIPE, stderr=subprocess.PIPE, text=True, start_new_session=True)
                try:
                    so, se = proc.communicate(timeout=timeout)
                    return {"stdout": so, "stderr": se[-6000:], "rc": proc.returncode, "cmd": " ".join(cmd), "wall": time.time() - t0}
                except subprocess.TimeoutExpired:
                    try:
                        os.killpg(proc.pid, signal.SIGKILL)
                    except ProcessLookupError:
                        pass
                    try:
                        so, se = proc.communicate(timeout=30)
                    except Exception:
                        so = ""
                    return {"stdout": so or "", "stderr": "timeout", "rc": -9, "cmd": " ".join(cmd), "wall": time.time() - t0, "timeout": True}

            raw = invoke([h["name"] for h in harnesses], playback=(len(harnesses) == 1))
            if not raw.get("timeout") and len(harnesses) > 1:
                first = parse_output(raw["stdout"], [])
                failing = [n for n, r in first.items() if r["verdict"] == "FAILED"][:3]
                if failing:
                    # re-run the failing harnesses one by one with concrete playback to obtain Kani's counterexample
                    extra = ""
                    for n in failing:
                        r2 = invoke([n], playback=True)
                        extra += "\n" + r2["stdout"]
                    raw["playback_stdout"] = extra
            if not raw.get("timeout"):
                tmp = f"{cpath}.{os.getpid()}.tmp"
                with open(tmp, "w") as fh:
                    json.dump(raw, fh)
                os.replace(tmp, cpath)
        finally:
            shutil.rmtree(scratch, ignore_errors=True)
    out["cmd"] = raw["cmd"] + "   (in an injected scratch copy of /repo, see kx/inject.py)"
    out["cached"] = raw.get("cached", False)
    out["wall_s"] = raw.get("wall")
    per = parse_output(raw["stdout"], [h["name"] for h in harnesses])
    if raw.get("playback_stdout"):
        for n, r2 in parse_output(raw["playback_stdout"], []).items():
            if n in per and r2.get("concrete"):
                per[n]["concrete"] = r2["concrete"]
    timed_out = bool(raw.get("timeout"))
    if timed_out and not any(r["verdict"] == "FAILED" for r in per.values()):
        out.update(status="undecided", reason=f"kani timed out after {raw['wall']:.0f}s")
    for h in harnesses:
        r = per.get(h["name"])
        if (r is None or r["verdict"] is None) and timed_out and any(x["verdict"] == "FAILED" for x in per.values()):
            # the group ran out of time, but another harness of the group already FAILED: that failure is a verdict
            out["harnesses"].append({"name": h["name"], "target": h["target"], "seconds": None, "bounded": h.get("bounded"), "verdict": "TIMEOUT (not decided)"})
            continue
        if r is None or r["verdict"] is None:
            if out["status"] == "ok":
                err = re.findall(r"error(?:\[E\d+\])?: [^\n]*", raw["stdout"] + raw["stderr"])
                out.update(status="undecided", reason=f"no verdict for harness {h['name']} (compile error or crash): {err[:3]} {raw['stderr'][-600:]}")
            continue
        entry = {"name": h["name"], "target": h["target"], "seconds": r["seconds"], "bounded": h.get("bounded"), "verdict": r["verdict"]}
        out["harnesses"].append(entry)
        if r["unwind_failure"]:
            out.update(status="undecided", reason=f"unwinding assertion failed in {h['name']}: bound too small, not a verdict")
            continue
        if r["verdict"] != "FAILED" and r["covers"] and r["covers"][0] < r["covers"][1]:
            out.update(status="undecided", reason=f"vacuity guard: only {r['covers'][0]} of {r['covers'][1]} cover properties satisfied in {h['name']}")
            continue
        if r["verdict"] == "FAILED":
            chk = "; ".join(f"{c[0]} ({os.path.basename(c[1])}:{c[2]})" for c in r["failed_checks"][:4])
            loc = f"{r['failed_checks'][0][1]}:{r['failed_checks'][0][2]}" if r["failed_checks"] else None
            out["failures"].append({"harness": h["name"], "kind": "kani check failed", "check": chk, "location": loc,
                                    "output": r["tail"], "concrete": ({"kani_concrete_playback": r["concrete"]} if r["concrete"] else None),
                                    "falsify_ops": h.get("falsify_ops", []), "playback": h.get("playback")})
    return out


if __name__ == "__main__":
    r = run_group(sys.argv[1], sys.argv[2] if len(sys.argv) > 2 else "quick")
    print(json.dumps(r, indent=1)[:5000])
