// Shared vocabulary of the Kani contracts (same definitions as spec/vocab.vrs, over i128 instead of int).
use crate::Duration;

pub const NPC: i128 = 3_155_760_000_000_000_000;
pub const MAX_T: i128 = 32768 * NPC;
pub const MIN_T: i128 = -32768 * NPC;

pub fn total(d: &Duration) -> i128 {
    let (c, n) = d.to_parts();
    c as i128 * NPC + n as i128
}
pub fn wf(d: &Duration) -> bool {
    let (c, n) = d.to_parts();
    (n as i128) < NPC || (c == i16::MAX && n as i128 == NPC)
}
pub fn clamp(t: i128) -> i128 {
    if t > MAX_T {
        MAX_T
    } else if t < MIN_T {
        MIN_T
    } else {
        t
    }
}
