// C18, clause "converting a finite floating-point count of any unit to a duration ...": contract of
// `impl Mul<f64> for Unit`, for EVERY f64 bit pattern (finite, subnormal, huge, +/-inf, NaN) and each of the nine units:
// the result is canonical and its count is clamp(trunc(fl(q * factor))) -- Rust's `as` cast truncates toward zero and
// saturates, NaN maps to zero -- and the call never panics.  Loop-free: complete, not bounded.
// Modular: Duration::from_truncated_nanoseconds / from_total_nanoseconds are replaced by their contracts
// (kx/contracts.json), which are the ones Verus discharges on the extracted text (cross-tool assumption, listed in the evidence).
use super::vx::{clamp, total, wf};
use crate::{Duration, Unit};

/// nanoseconds per unit as doubles, from the definition of the units (all exactly representable)
fn factor(u: Unit) -> f64 {
    match u {
        Unit::Nanosecond => 1.0,
        Unit::Microsecond => 1e3,
        Unit::Millisecond => 1e6,
        Unit::Second => 1e9,
        Unit::Minute => 60e9,
        Unit::Hour => 3_600e9,
        Unit::Day => 86_400e9,
        Unit::Week => 604_800e9,
        Unit::Century => 3_155_760_000e9,
    }
}

fn check(u: Unit) {
    let q: f64 = kani::any();
    let r: Duration = u * q;
    assert!(wf(&r));
    let p = q * factor(u);
    // `as i128`: truncates toward zero, saturates at the i128 bounds, NaN -> 0
    let expect = clamp(p as i128);
    assert!(total(&r) == expect);
    kani::cover!(q.is_nan());
    kani::cover!(q == f64::INFINITY);
    kani::cover!(total(&r) == super::vx::MIN_T);
    kani::cover!(q > 0.0 && q < 1e-300);
}

macro_rules! unit_harness {
    ($name:ident, $u:expr) => {
        #[kani::proof]
        #[kani::stub_verified(Duration::from_truncated_nanoseconds)]
        #[kani::stub_verified(Duration::from_total_nanoseconds)]
        fn $name() {
            check($u);
        }
    };
}
unit_harness!(c18_unit_f64_nanosecond, Unit::Nanosecond);
unit_harness!(c18_unit_f64_microsecond, Unit::Microsecond);
unit_harness!(c18_unit_f64_millisecond, Unit::Millisecond);
unit_harness!(c18_unit_f64_second, Unit::Second);
unit_harness!(c18_unit_f64_minute, Unit::Minute);
unit_harness!(c18_unit_f64_hour, Unit::Hour);
unit_harness!(c18_unit_f64_day, Unit::Day);
unit_harness!(c18_unit_f64_week, Unit::Week);
unit_harness!(c18_unit_f64_century, Unit::Century);

// Kani requires a proof_for_contract harness to exist for every stub_verified target.  These two contracts are discharged by
// Verus (obligations implDuration::from_truncated_nanoseconds / from_total_nanoseconds of cluster `duration`); the CBMC
// proofs below need 128-bit division and are only run in the thorough tier when the budget allows.
#[kani::proof_for_contract(Duration::from_truncated_nanoseconds)]
fn c18_pfc_from_truncated_nanoseconds() {
    let n: i64 = kani::any();
    let _ = Duration::from_truncated_nanoseconds(n);
}
#[kani::proof_for_contract(Duration::from_total_nanoseconds)]
fn c18_pfc_from_total_nanoseconds() {
    let n: i128 = kani::any();
    let _ = Duration::from_total_nanoseconds(n);
}
