// C04, clause "(or float seconds that are an exact integer)": Epoch + f64 on the real code.  For every epoch duration at
// least three centuries inside the bounds, every time scale tag and every f64 that is a whole number of seconds whose
// nanosecond count is below 2^53 (|s| <= 9 007 199 s, the exactness domain stated in C18), `e + s` keeps the time scale and changes the elapsed time by exactly s seconds.  Loop-free: complete.
use super::vx::{total, NPC};
use crate::{Duration, Epoch, TimeScale};

#[kani::proof]
#[kani::stub_verified(Duration::from_truncated_nanoseconds)]
#[kani::stub_verified(Duration::from_total_nanoseconds)]
fn c04_epoch_add_f64_integral_seconds() {
    let c: i16 = kani::any();
    let n: u64 = kani::any();
    kani::assume((n as i128) < NPC);
    kani::assume(c > i16::MIN + 2 && c < i16::MAX - 2);
    let ts: u8 = kani::any();
    let e = Epoch::from_duration(Duration::from_parts(c, n), TimeScale::from(ts));
    let k: i64 = kani::any();
    kani::assume(k >= -9_007_199 && k <= 9_007_199); // |k| * 1e9 < 2^53: the product is an exactly representable double
    let s = k as f64;
    let r = e + s;
    assert!(r.time_scale == e.time_scale);
    assert!(total(&r.duration) == total(&e.duration) + k as i128 * 1_000_000_000);
    kani::cover!(k < 0);
    kani::cover!(k == 9_007_199);
}
