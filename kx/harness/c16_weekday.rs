// C16, weekday algebra: loop-free harnesses over the WHOLE finite domain (7 x 256 weekday/integer combinations,
// all 49 weekday pairs, all u8 / i8 conversions): a complete proof, not a bounded stand-in.
use crate::{Weekday, NANOSECONDS_PER_DAY};

/// independent index of a weekday (Monday = 0), not using the crate's own conversions
fn widx(w: Weekday) -> u8 {
    match w {
        Weekday::Monday => 0,
        Weekday::Tuesday => 1,
        Weekday::Wednesday => 2,
        Weekday::Thursday => 3,
        Weekday::Friday => 4,
        Weekday::Saturday => 5,
        Weekday::Sunday => 6,
    }
}

#[kani::proof]
fn c16_from_u8() {
    let n: u8 = kani::any();
    assert!(widx(Weekday::from(n)) == n % 7);
    let w: Weekday = kani::any();
    assert!(u8::from(w) == widx(w));
    kani::cover!(n > 250);
}

#[kani::proof]
fn c16_from_i8() {
    let n: i8 = kani::any();
    assert!(widx(Weekday::from(n)) as i16 == (n as i16).rem_euclid(7));
    kani::cover!(n == i8::MIN);
    kani::cover!(n == i8::MAX);
}

#[kani::proof]
fn c16_add_sub_u8() {
    let w: Weekday = kani::any();
    let n: u8 = kani::any();
    // adding or subtracting day counts wraps around modulo 7, for every count, without overflow
    assert!(widx(w + n) as u16 == (widx(w) as u16 + n as u16) % 7);
    assert!(widx(w - n) as i16 == (widx(w) as i16 - n as i16).rem_euclid(7));
    let mut x = w;
    x += n;
    assert!(x == w + n);
    let mut y = w;
    y -= n;
    assert!(y == w - n);
    kani::cover!(n == 255 && widx(w) == 6);
    kani::cover!(n >= 128);
}

#[kani::proof]
fn c16_weekday_pairs() {
    let a: Weekday = kani::any();
    let b: Weekday = kani::any();
    assert!(widx(a + b) == (widx(a) + widx(b)) % 7);
    // a - b: the 0..6 days from a to the next occurrence of b
    let d = a - b;
    let days = (widx(b) as i16 - widx(a) as i16).rem_euclid(7) as u64;
    assert!(d.to_parts() == (0, days * NANOSECONDS_PER_DAY));
    assert!(widx(a + days as u8) == widx(b));
    kani::cover!(widx(a) == 6 && widx(b) == 0);
}

#[kani::proof]
fn c16_c89() {
    let w: Weekday = kani::any();
    // C89: Sunday = 0
    assert!(w.to_c89_weekday() == (widx(w) + 1) % 7);
}
