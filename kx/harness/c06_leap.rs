// C06: UTC <-> TAI follows the IERS table.  Harnesses over a SYMBOLIC instant at nanosecond resolution, all centuries.
// The only loop is the scan of the 42-entry built-in table: unwind(44) with unwinding assertions on, i.e. complete.
// The oracle table `IERS` is generated at check time from data/leap-seconds.list and cross-checked with naif0012.txt.
use super::c06_table::IERS;
use crate::leap_seconds::LatestLeapSeconds;
use crate::{Duration, Epoch, TimeScale};

const NPC: i128 = 3_155_760_000_000_000_000;
const S: i128 = 1_000_000_000;

fn total(d: Duration) -> i128 {
    let (c, n) = d.to_parts();
    c as i128 * NPC + n as i128
}

/// TAI - UTC (s) in force at the UTC count u (ns since 1900-01-01): 0 before 1972-01-01, then the table
fn offset_at_utc(u: i128) -> i128 {
    let mut r: i128 = 0;
    let mut i = 0;
    while i < IERS.len() {
        if u >= IERS[i].0 as i128 * S {
            r = IERS[i].1 as i128;
        }
        i += 1;
    }
    r
}

fn any_instant() -> (Duration, i128) {
    let c: i16 = kani::any();
    let n: u64 = kani::any();
    kani::assume((n as i128) < NPC);
    kani::assume(c > i16::MIN && c < i16::MAX); // one century away from the saturation bounds (C01 covers saturation)
    let d = Duration::from_parts(c, n);
    (d, c as i128 * NPC + n as i128)
}

/// (a) converting a UTC epoch to TAI adds exactly the TAI-UTC offset in force at that UTC time
#[kani::proof]
#[kani::unwind(44)]
fn c06_utc_to_tai() {
    let (d, u) = any_instant();
    let e = Epoch::from_duration(d, TimeScale::UTC);
    let t = e.to_time_scale(TimeScale::TAI);
    assert!(t.time_scale == TimeScale::TAI);
    assert!(total(t.duration) == u + offset_at_utc(u) * S);
    kani::cover!(offset_at_utc(u) == 0);
    kani::cover!(offset_at_utc(u) == 10);
    kani::cover!(offset_at_utc(u) == 36);
    kani::cover!(offset_at_utc(u) == 37);
    kani::cover!(u == IERS[27].0 as i128 * S - 1); // last nanosecond before the latest leap second
}

/// (c) converting the result back to UTC returns the original UTC epoch
#[kani::proof]
#[kani::unwind(44)]
fn c06_utc_tai_utc_roundtrip() {
    let (d, u) = any_instant();
    let e = Epoch::from_duration(d, TimeScale::UTC);
    let back = e.to_time_scale(TimeScale::TAI).to_time_scale(TimeScale::UTC);
    assert!(back.time_scale == TimeScale::UTC);
    assert!(total(back.duration) == u);
    kani::cover!(u >= IERS[27].0 as i128 * S - 40 * S && u < IERS[27].0 as i128 * S);
}

/// (d) TAI -> UTC: outside the inserted seconds the result is THE UTC count u with u + offset(u) = t (hence increasing);
/// inside an inserted second (which has no UTC count of its own) it stays within the inserted amount of the table timestamp
#[kani::proof]
#[kani::unwind(44)]
fn c06_tai_to_utc() {
    let (d, t) = any_instant();
    let e = Epoch::from_duration(d, TimeScale::TAI);
    let r = e.to_time_scale(TimeScale::UTC);
    assert!(r.time_scale == TimeScale::UTC);
    let u = total(r.duration);
    let mut inside = false;
    let mut near = false;
    let mut i = 0;
    while i < IERS.len() {
        let ts = IERS[i].0 as i128;
        let dn = IERS[i].1 as i128;
        let dp = if i == 0 { 0 } else { IERS[i - 1].1 as i128 };
        if t >= (ts + dp) * S && t < (ts + dn) * S {
            inside = true;
            if u >= (ts - (dn - dp)) * S && u <= (ts + (dn - dp)) * S {
                near = true;
            }
        }
        i += 1;
    }
    if inside {
        assert!(near);
    } else {
        assert!(u + offset_at_utc(u) * S == t);
    }
    kani::cover!(inside);
    kani::cover!(!inside && offset_at_utc(u) == 37);
}

/// (f) the built-in table lists exactly the leap seconds announced by IERS, in order, iterating forward and backward;
/// the other (SOFA, pre-1972) rows are not flagged as announced
#[kani::proof]
#[kani::unwind(44)]
fn c06_builtin_table() {
    let mut k = 0;
    let mut rows = 0;
    for ls in LatestLeapSeconds::default() {
        rows += 1;
        if ls.announced_by_iers {
            assert!(k < IERS.len());
            assert!(ls.timestamp_tai_s == IERS[k].0 as f64);
            assert!(ls.delta_at == IERS[k].1 as f64);
            k += 1;
        } else {
            assert!(ls.timestamp_tai_s < IERS[0].0 as f64);
        }
    }
    assert!(k == IERS.len());
    assert!(rows == 42);
    let mut k2 = IERS.len();
    for ls in LatestLeapSeconds::default().rev() {
        if ls.announced_by_iers {
            k2 -= 1;
            assert!(ls.timestamp_tai_s == IERS[k2].0 as f64 && ls.delta_at == IERS[k2].1 as f64);
        }
    }
    assert!(k2 == 0);
    assert!(IERS[IERS.len() - 1].1 == 37);
}
