// C02, clause "from a std duration": impl From<std::time::Duration> for Duration on the real code (std type, outside
// Verus' reach), for EVERY std duration (u64 seconds x u32 sub-second nanoseconds): canonical result whose count is the
// original integer clamped to the representable range.  Loop-free: complete.  Duration::from_total_nanoseconds is replaced
// by its contract (discharged by Verus).
use super::vx::{clamp, total, wf};
use crate::Duration;

#[kani::proof]
#[kani::stub_verified(Duration::from_total_nanoseconds)]
fn c02_from_std_duration() {
    let secs: u64 = kani::any();
    let nanos: u32 = kani::any();
    kani::assume(nanos < 1_000_000_000);
    let std_d = std::time::Duration::new(secs, nanos);
    let d: Duration = std_d.into();
    assert!(wf(&d));
    assert!(total(&d) == clamp(secs as i128 * 1_000_000_000 + nanos as i128));
    kani::cover!(total(&d) == super::vx::MAX_T);
    kani::cover!(secs == 0 && nanos == 999_999_999);
}
