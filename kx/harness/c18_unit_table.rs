// C18: the unit table behind Duration::to_unit -- Unit::in_seconds is the exact number of seconds per unit and
// Unit::from_seconds its correctly rounded reciprocal, for all nine units (finite domain: complete).
//
// Tried and dropped (DESIGN.md 10.9): a loop-free harness for the accuracy of Duration::to_seconds over every canonical
// (i16, u64) -- error <= 4-8 ulp of max(|exact|, 1 s), exact zero, right sign, with the comparison arranged so that the
// checker's own float arithmetic is exact (Sterbenz) -- did not finish in 40 min (cadical), nor restricted to centuries == 0
// in 25 min; even the weaker claim "finite, zero only for zero, negative only for negative, between the whole seconds below
// and above" did not finish in 20 min: two float multiplications plus a 64-bit division by 1e9 are beyond CBMC's bit-blasting here.  The accuracy
// clause is therefore decided only by the bounded stand-in duration_to_f64 (labelled bounded).
use crate::Unit;

/// Unit::in_seconds / from_seconds on the nine units (finite domain; symbol-free per unit): exact seconds per unit, and
/// from_seconds is the correctly rounded reciprocal
#[kani::proof]
fn c18_unit_seconds_table() {
    let table: [(Unit, f64); 9] = [
        (Unit::Nanosecond, 1e-9), (Unit::Microsecond, 1e-6), (Unit::Millisecond, 1e-3), (Unit::Second, 1.0), (Unit::Minute, 60.0),
        (Unit::Hour, 3_600.0), (Unit::Day, 86_400.0), (Unit::Week, 604_800.0), (Unit::Century, 3_155_760_000.0),
    ];
    let i: usize = kani::any();
    kani::assume(i < 9);
    let (u, secs) = table[i];
    assert!(u.in_seconds() == secs);
    assert!(u.from_seconds() == 1.0 / secs);
    kani::cover!(i == 8);
    kani::cover!(i == 0);
}
