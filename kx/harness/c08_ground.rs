// C08: the assumed postcondition of TimeScale::gregorian_epoch_offset (left external_body in the Verus text because it
// goes through the f64 code of Duration::decompose) proved on the real code for each of the nine time scales, and the R7
// ground fact `DAYS_PER_YEAR_NLD as i32 == 365`.  Symbol-free: complete.
use crate::{TimeScale, DAYS_PER_YEAR_NLD};

const DAY: u64 = 86_400_000_000_000;

#[kani::proof]
fn c08_gregorian_epoch_offset() {
    assert!(DAYS_PER_YEAR_NLD as i32 == 365);
    // day_index(1980,1,6) = 29224, day_index(1999,8,22) = 36392, day_index(2006,1,1) = 38716, day_index(2000,1,1) = 36524
    // (these four day counts are proved from the civil calendar by Verus: lemma_greg_zero_values)
    assert!(TimeScale::TAI.gregorian_epoch_offset().to_parts() == (0, 0));
    assert!(TimeScale::TT.gregorian_epoch_offset().to_parts() == (0, 0));
    assert!(TimeScale::UTC.gregorian_epoch_offset().to_parts() == (0, 0));
    assert!(TimeScale::GPST.gregorian_epoch_offset().to_parts() == (0, 29_224 * DAY));
    assert!(TimeScale::QZSST.gregorian_epoch_offset().to_parts() == (0, 29_224 * DAY));
    assert!(TimeScale::GST.gregorian_epoch_offset().to_parts() == (0, 36_392 * DAY));
    assert!(TimeScale::BDT.gregorian_epoch_offset().to_parts() == (1, 38_716 * DAY - 3_155_760_000_000_000_000));
    assert!(TimeScale::ET.gregorian_epoch_offset().to_parts() == (0, 36_524 * DAY + DAY / 2));
    assert!(TimeScale::TDB.gregorian_epoch_offset().to_parts() == (0, 36_524 * DAY + DAY / 2));
}
