// C17 / R7 ground facts: symbol-free (concrete) harness, so the run is a complete proof of these facts on the real
// code: CBMC evaluates IEEE-754 double arithmetic bit-precisely.
use crate::{Duration, Unit, MJD_J1900, MJD_OFFSET, NANOSECONDS_PER_DAY, UNIX_REF_EPOCH};

#[kani::proof]
fn c17_ground_facts() {
    // G0 (justifies the R7 constant folding of `(MJD_J1900 + MJD_OFFSET)` in the Verus text)
    assert!(MJD_J1900 + MJD_OFFSET == 2_415_020.5_f64);
    // G1..G3
    let g1 = Unit::Day * MJD_J1900;
    assert!(g1.to_parts() == (0, 15_020 * NANOSECONDS_PER_DAY));
    let g2 = Unit::Day * MJD_OFFSET;
    let t2: i128 = 2_400_000 * (NANOSECONDS_PER_DAY as i128) + 43_200_000_000_000;
    assert!(g2.to_parts() == ((t2 / 3_155_760_000_000_000_000) as i16, (t2 % 3_155_760_000_000_000_000) as u64));
    let g3 = Unit::Day * (MJD_J1900 + MJD_OFFSET);
    let t3: i128 = 2_415_020 * (NANOSECONDS_PER_DAY as i128) + 43_200_000_000_000;
    assert!(g3.to_parts() == ((t3 / 3_155_760_000_000_000_000) as i16, (t3 % 3_155_760_000_000_000_000) as u64));
    let g3b = Unit::Day * 2_415_020.5_f64;
    assert!(g3b.to_parts() == g3.to_parts());
    let _ = Duration::ZERO;
}

#[kani::proof]
#[kani::unwind(44)]
fn c17_ground_unix_ref() {
    // G5: the UNIX reference epoch (1970-01-01, day 25 567 since 1900-01-01) reads the same in UTC as in TAI:
    // no IERS leap second before 1972 (the 42-entry table is scanned completely: unwind 44 with unwinding assertions)
    assert!(UNIX_REF_EPOCH.to_utc_duration().to_parts() == (0, 25_567 * NANOSECONDS_PER_DAY));
    assert!(UNIX_REF_EPOCH.to_tai_duration().to_parts() == (0, 25_567 * NANOSECONDS_PER_DAY));
}
