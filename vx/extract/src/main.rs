// vx-extract: index a Rust source file with syn and print, as JSON, the byte spans of every item
// (consts, structs, enums, fns, impl blocks and their methods, traits and their default methods,
// macro_rules definitions), of every fn's signature pieces, body, loops and `self` tokens.
//
// Nothing is pretty-printed: consumers copy source text by byte span.
//
// usage: vx-extract <file.rs>                       index a file
//        vx-extract --text <virtual-name> < text    index text from stdin (used for macro expansion)

use proc_macro2::{Span, TokenStream, TokenTree};
use serde_json::{json, Value};
use std::io::Read;
use syn::spanned::Spanned;
use syn::visit::Visit;

fn br(sp: Span) -> (usize, usize) {
    let r = sp.byte_range();
    (r.start, r.end)
}

fn span_json(sp: Span) -> Value {
    let (s, e) = br(sp);
    json!([s, e])
}

fn join(a: Span, b: Span) -> Value {
    let (s, _) = br(a);
    let (_, e) = br(b);
    json!([s, e])
}

fn tokens_span(ts: &TokenStream) -> Option<(usize, usize)> {
    let mut first = None;
    let mut last = None;
    for tt in ts.clone() {
        let (s, e) = br(tt.span());
        if first.is_none() {
            first = Some(s);
        }
        last = Some(e);
    }
    match (first, last) {
        (Some(s), Some(e)) => Some((s, e)),
        _ => None,
    }
}

fn spanned_json<T: quote_free::ToTokensLike>(t: &T) -> Value {
    match t.byte_span() {
        Some((s, e)) => json!([s, e]),
        None => Value::Null,
    }
}

mod quote_free {
    use super::*;
    pub trait ToTokensLike {
        fn byte_span(&self) -> Option<(usize, usize)>;
    }
    impl<T: Spanned> ToTokensLike for T {
        fn byte_span(&self) -> Option<(usize, usize)> {
            // syn's Spanned::span() joins first and last token on nightly only; in fallback mode
            // (which we are in) join works through the source map, so the range covers the node.
            let sp = self.span();
            let (s, e) = br(sp);
            if s == 0 && e == 0 {
                None
            } else {
                Some((s, e))
            }
        }
    }
}

fn attrs_json(attrs: &[syn::Attribute]) -> Value {
    let mut out = vec![];
    for a in attrs {
        let text_kind = if a.path().is_ident("doc") {
            "doc"
        } else if a.path().is_ident("derive") {
            "derive"
        } else if a.path().is_ident("cfg") {
            "cfg"
        } else {
            "other"
        };
        out.push(json!({"span": spanned_json(a), "kind": text_kind}));
    }
    Value::Array(out)
}

fn derive_list(attrs: &[syn::Attribute]) -> Vec<String> {
    let mut out = vec![];
    for a in attrs {
        if a.path().is_ident("derive") {
            let _ = a.parse_nested_meta(|m| {
                let p = m
                    .path
                    .segments
                    .iter()
                    .map(|s| s.ident.to_string())
                    .collect::<Vec<_>>()
                    .join("::");
                out.push(p);
                Ok(())
            });
        }
    }
    out
}

fn vis_json(v: &syn::Visibility) -> Value {
    match v {
        syn::Visibility::Inherited => Value::Null,
        _ => spanned_json(v),
    }
}

struct LoopFinder {
    loops: Vec<Value>,
}
impl<'ast> Visit<'ast> for LoopFinder {
    fn visit_expr_for_loop(&mut self, n: &'ast syn::ExprForLoop) {
        let (bo, be) = br(n.body.brace_token.span.join());
        self.loops.push(json!({"kind":"for","span":spanned_json(n),"body":[bo,be],
            "for_tok": span_json(n.for_token.span)}));
        syn::visit::visit_expr_for_loop(self, n);
    }
    fn visit_expr_while(&mut self, n: &'ast syn::ExprWhile) {
        let (bo, be) = br(n.body.brace_token.span.join());
        self.loops.push(json!({"kind":"while","span":spanned_json(n),"body":[bo,be],
            "for_tok": span_json(n.while_token.span)}));
        syn::visit::visit_expr_while(self, n);
    }
    fn visit_expr_loop(&mut self, n: &'ast syn::ExprLoop) {
        let (bo, be) = br(n.body.brace_token.span.join());
        self.loops.push(json!({"kind":"loop","span":spanned_json(n),"body":[bo,be],
            "for_tok": span_json(n.loop_token.span)}));
        syn::visit::visit_expr_loop(self, n);
    }
    // do not descend into nested items
    fn visit_item(&mut self, _n: &'ast syn::Item) {}
}

struct MatchFinder<'s> {
    src: &'s str,
    matches: Vec<Value>,
}
impl<'ast, 's> Visit<'ast> for MatchFinder<'s> {
    fn visit_expr_match(&mut self, n: &'ast syn::ExprMatch) {
        let mut arms = vec![];
        for a in n.arms.iter() {
            let (ps, pe) = match spanned_json(&a.pat) {
                Value::Array(v) => (v[0].as_u64().unwrap() as usize, v[1].as_u64().unwrap() as usize),
                _ => (0, 0),
            };
            let pat: String = self.src[ps..pe].split_whitespace().collect::<Vec<_>>().join("");
            arms.push(json!({"pat": pat, "pat_span": [ps, pe], "body": spanned_json(&*a.body),
                             "guard": a.guard.is_some()}));
        }
        self.matches.push(json!({"span": spanned_json(n), "arms": arms}));
        syn::visit::visit_expr_match(self, n);
    }
    fn visit_item(&mut self, _n: &'ast syn::Item) {}
}

fn collect_idents(ts: TokenStream, name: &str, out: &mut Vec<Value>) {
    for tt in ts {
        match tt {
            TokenTree::Group(g) => collect_idents(g.stream(), name, out),
            TokenTree::Ident(i) => {
                if i == name {
                    out.push(span_json(i.span()));
                }
            }
            _ => {}
        }
    }
}

fn block_tokens(src: &str, span: (usize, usize)) -> TokenStream {
    src[span.0..span.1].parse::<TokenStream>().unwrap_or_default()
}

fn fn_json(
    src: &str,
    attrs: &[syn::Attribute],
    vis: Option<&syn::Visibility>,
    sig: &syn::Signature,
    block: Option<&syn::Block>,
    whole: Value,
    defaultness: bool,
) -> Value {
    let mut inputs = vec![];
    for inp in sig.inputs.iter() {
        match inp {
            syn::FnArg::Receiver(r) => {
                inputs.push(json!({
                    "kind": "receiver",
                    "span": spanned_json(r),
                    "reference": r.reference.is_some(),
                    "mut_ref": r.reference.is_some() && r.mutability.is_some(),
                    "mut_tok": if r.reference.is_none() { r.mutability.map(|m| span_json(m.span)).unwrap_or(Value::Null) } else { Value::Null },
                    "name": "self",
                }));
            }
            syn::FnArg::Typed(t) => {
                let (name, mut_tok) = match &*t.pat {
                    syn::Pat::Ident(pi) => (
                        Some(pi.ident.to_string()),
                        pi.mutability.map(|m| span_json(m.span)).unwrap_or(Value::Null),
                    ),
                    _ => (None, Value::Null),
                };
                inputs.push(json!({
                    "kind": "typed",
                    "span": spanned_json(t),
                    "name": name,
                    "mut_tok": mut_tok,
                    "ty": spanned_json(&*t.ty),
                }));
            }
        }
    }
    let ret = match &sig.output {
        syn::ReturnType::Default => Value::Null,
        syn::ReturnType::Type(arrow, ty) => json!({"arrow": span_json(arrow.spans[0]), "ty": spanned_json(&**ty),
            "arrow_end": br(arrow.spans[1]).1}),
    };
    let mut loops = vec![];
    let mut self_tokens = vec![];
    let mut body = Value::Null;
    let mut matches = vec![];
    if let Some(b) = block {
        let mut mf = MatchFinder { src, matches: vec![] };
        mf.visit_block(b);
        matches = mf.matches;
        matches.sort_by_key(|l| l["span"][0].as_u64().unwrap_or(0));
        let mut lf = LoopFinder { loops: vec![] };
        lf.visit_block(b);
        loops = lf.loops;
        loops.sort_by_key(|l| l["span"][0].as_u64().unwrap_or(0));
        let (bs, be) = br(b.brace_token.span.join());
        body = json!([bs, be]);
        // `self` tokens inside the body, found on the raw token stream so that macro arguments are covered.
        // Offsets of a re-lexed substring are relative to a fresh source-map entry; normalise below.
        let ts = block_tokens(src, (bs, be));
        let mut raw = vec![];
        collect_idents(ts.clone(), "self", &mut raw);
        if let Some((first_s, _)) = tokens_span(&ts) {
            // first token of the re-lexed stream is the `{` at offset bs
            for v in raw {
                let s = v[0].as_u64().unwrap() as usize - first_s + bs;
                let e = v[1].as_u64().unwrap() as usize - first_s + bs;
                self_tokens.push(json!([s, e]));
            }
        }
    }
    let paren_v = { let (s,e) = br(sig.paren_token.span.join()); json!([s,e]) };
    json!({
        "kind": "fn",
        "name": sig.ident.to_string(),
        "span": whole,
        "attrs": attrs_json(attrs),
        "vis": vis.map(vis_json).unwrap_or(Value::Null),
        "default": defaultness,
        "constness": sig.constness.map(|c| span_json(c.span)).unwrap_or(Value::Null),
        "fn_tok": span_json(sig.fn_token.span),
        "ident": span_json(sig.ident.span()),
        "generics": spanned_json(&sig.generics),
        "paren": paren_v,
        "inputs": inputs,
        "ret": ret,
        "where": sig.generics.where_clause.as_ref().map(|w| spanned_json(w)).unwrap_or(Value::Null),
        "body": body,
        "loops": loops,
        "matches": matches,
        "self_tokens": self_tokens,
    })
}

fn type_string(ty: &syn::Type, src: &str) -> String {
    match spanned_json(ty) {
        Value::Array(a) => {
            let s = a[0].as_u64().unwrap() as usize;
            let e = a[1].as_u64().unwrap() as usize;
            src[s..e].split_whitespace().collect::<Vec<_>>().join("")
        }
        _ => String::new(),
    }
}

fn path_string(p: &syn::Path, src: &str) -> String {
    match spanned_json(p) {
        Value::Array(a) => {
            let s = a[0].as_u64().unwrap() as usize;
            let e = a[1].as_u64().unwrap() as usize;
            src[s..e].split_whitespace().collect::<Vec<_>>().join("")
        }
        _ => String::new(),
    }
}

fn item_json(src: &str, it: &syn::Item) -> Option<Value> {
    Some(match it {
        syn::Item::Const(c) => json!({
            "kind":"const","name":c.ident.to_string(),"span":spanned_json(c),
            "attrs":attrs_json(&c.attrs),"vis":vis_json(&c.vis),
            "const_tok": span_json(c.const_token.span),
            "ty":spanned_json(&*c.ty),"expr":spanned_json(&*c.expr),
        }),
        syn::Item::Static(c) => json!({
            "kind":"static","name":c.ident.to_string(),"span":spanned_json(c),
            "attrs":attrs_json(&c.attrs),"vis":vis_json(&c.vis),
        }),
        syn::Item::Struct(s) => {
            let mut fields = vec![];
            for f in s.fields.iter() {
                fields.push(json!({
                    "name": f.ident.as_ref().map(|i| i.to_string()),
                    "span": spanned_json(f),
                    "attrs": attrs_json(&f.attrs),
                    "vis": vis_json(&f.vis),
                    "ty": spanned_json(&f.ty),
                    "ty_text": type_string(&f.ty, src),
                }));
            }
            json!({
                "kind":"struct","name":s.ident.to_string(),"span":spanned_json(s),
                "attrs":attrs_json(&s.attrs),"vis":vis_json(&s.vis),
                "struct_tok": span_json(s.struct_token.span),
                "derive": derive_list(&s.attrs),
                "fields": fields,
            })
        }
        syn::Item::Enum(e) => {
            let mut variants = vec![];
            for v in e.variants.iter() {
                variants.push(json!({
                    "name": v.ident.to_string(),
                    "span": spanned_json(v),
                    "attrs": attrs_json(&v.attrs),
                    "unit": matches!(v.fields, syn::Fields::Unit),
                    "discriminant": v.discriminant.as_ref().map(|(_, e)| spanned_json(e)).unwrap_or(Value::Null),
                }));
            }
            json!({
                "kind":"enum","name":e.ident.to_string(),"span":spanned_json(e),
                "attrs":attrs_json(&e.attrs),"vis":vis_json(&e.vis),
                "enum_tok": span_json(e.enum_token.span),
                "derive": derive_list(&e.attrs),
                "variants": variants,
            })
        }
        syn::Item::Fn(f) => {
            let mut v = fn_json(src, &f.attrs, Some(&f.vis), &f.sig, Some(&f.block), spanned_json(f), false);
            v["path"] = json!(format!("fn {}", f.sig.ident));
            v
        }
        syn::Item::Impl(im) => {
            let self_ty = type_string(&im.self_ty, src);
            let header = match &im.trait_ {
                Some((_, p, _)) => format!("impl {} for {}", path_string(p, src), self_ty),
                None => format!("impl {}", self_ty),
            };
            let mut items = vec![];
            for ii in im.items.iter() {
                match ii {
                    syn::ImplItem::Fn(f) => {
                        let mut v = fn_json(src, &f.attrs, Some(&f.vis), &f.sig, Some(&f.block), spanned_json(f), f.defaultness.is_some());
                        v["path"] = json!(format!("{} :: {}", header, f.sig.ident));
                        items.push(v);
                    }
                    syn::ImplItem::Const(c) => items.push(json!({
                        "kind":"const","name":c.ident.to_string(),"span":spanned_json(c),
                        "attrs":attrs_json(&c.attrs),"vis":vis_json(&c.vis),
                        "const_tok": span_json(c.const_token.span),
                        "ty":spanned_json(&c.ty),"expr":spanned_json(&c.expr),
                        "path": format!("{} :: const {}", header, c.ident),
                    })),
                    syn::ImplItem::Type(t) => items.push(json!({
                        "kind":"type","name":t.ident.to_string(),"span":spanned_json(t),
                        "attrs":attrs_json(&t.attrs),
                    })),
                    _ => {}
                }
            }
            let (bs, be) = br(im.brace_token.span.join());
            json!({
                "kind":"impl","header":header,"span":spanned_json(im),
                "attrs":attrs_json(&im.attrs),
                "impl_tok": span_json(im.impl_token.span),
                "brace":[bs,be],
                "trait": im.trait_.as_ref().map(|(_, p, _)| path_string(p, src)),
                "self_ty": self_ty,
                "items": items,
            })
        }
        syn::Item::Trait(t) => {
            let mut items = vec![];
            for ti in t.items.iter() {
                if let syn::TraitItem::Fn(f) = ti {
                    let mut v = fn_json(src, &f.attrs, None, &f.sig, f.default.as_ref(), spanned_json(f), false);
                    v["path"] = json!(format!("trait {} :: {}", t.ident, f.sig.ident));
                    items.push(v);
                }
            }
            let (bs, be) = br(t.brace_token.span.join());
            json!({
                "kind":"trait","name":t.ident.to_string(),"span":spanned_json(t),
                "attrs":attrs_json(&t.attrs),"vis":vis_json(&t.vis),
                "brace":[bs,be],
                "items": items,
            })
        }
        syn::Item::Macro(m) => {
            let name = m.ident.as_ref().map(|i| i.to_string());
            let is_rules = m.mac.path.is_ident("macro_rules");
            let mut rules = vec![];
            if is_rules {
                // macro_rules! name { (matcher) => { transcriber }; ... }
                let toks: Vec<TokenTree> = m.mac.tokens.clone().into_iter().collect();
                let mut i = 0;
                while i + 3 < toks.len() + 1 {
                    if let (Some(TokenTree::Group(mg)), Some(TokenTree::Punct(p1)), Some(TokenTree::Punct(p2)), Some(TokenTree::Group(tg))) =
                        (toks.get(i), toks.get(i + 1), toks.get(i + 2), toks.get(i + 3))
                    {
                        if p1.as_char() == '=' && p2.as_char() == '>' {
                            let (ms, me) = br(mg.span());
                            let (ts_, te) = br(tg.span());
                            rules.push(json!({"matcher":[ms,me],"transcriber":[ts_,te]}));
                            i += 4;
                            if let Some(TokenTree::Punct(p)) = toks.get(i) {
                                if p.as_char() == ';' {
                                    i += 1;
                                }
                            }
                            continue;
                        }
                    }
                    break;
                }
            }
            let args_v = match tokens_span(&m.mac.tokens) { Some((s,e)) => json!([s,e]), None => Value::Null };
            let kind_v = if is_rules {"macro_rules"} else {"macro_call"};
            json!({
                "kind": kind_v,
                "name": name,
                "mac_path": path_string(&m.mac.path, src),
                "span": spanned_json(m),
                "attrs": attrs_json(&m.attrs),
                "rules": rules,
                "args": args_v,
            })
        }
        syn::Item::Mod(m) => {
            let mut items = vec![];
            if let Some((_, its)) = &m.content {
                for it in its {
                    if let Some(v) = item_json(src, it) {
                        items.push(v);
                    }
                }
            }
            json!({"kind":"mod","name":m.ident.to_string(),"span":spanned_json(m),
                   "attrs":attrs_json(&m.attrs),"inline": m.content.is_some(),"items":items})
        }
        syn::Item::Use(u) => json!({"kind":"use","span":spanned_json(u)}),
        syn::Item::Type(t) => json!({"kind":"type","name":t.ident.to_string(),"span":spanned_json(t)}),
        _ => return None,
    })
}

fn main() {
    let args: Vec<String> = std::env::args().collect();
    let (name, src) = if args.len() >= 3 && args[1] == "--text" {
        let mut s = String::new();
        std::io::stdin().read_to_string(&mut s).unwrap();
        (args[2].clone(), s)
    } else if args.len() >= 2 {
        (args[1].clone(), std::fs::read_to_string(&args[1]).expect("cannot read file"))
    } else {
        eprintln!("usage: vx-extract <file.rs> | --text <name> < text");
        std::process::exit(2);
    };
    let file = match syn::parse_file(&src) {
        Ok(f) => f,
        Err(e) => {
            eprintln!("vx-extract: parse error in {}: {}", name, e);
            std::process::exit(3);
        }
    };
    let mut items = vec![];
    for it in &file.items {
        if let Some(v) = item_json(&src, it) {
            items.push(v);
        }
    }
    let out = json!({"file": name, "len": src.len(), "items": items});
    println!("{}", serde_json::to_string(&out).unwrap());
}
