#!/usr/bin/env python3
"""vx/gen.py -- assemble a single-file Verus program from (a) real functions copied by byte span
out of /repo's current working tree and (b) the contracts / lemmas in /verif/spec/*.vrs.

Nothing of the repository's code is retyped here: every function body, signature, constant
initialiser, struct and enum that ends up in the generated file is a byte range of a file under
/repo/src, located with the syn-based indexer `vx-extract`, with a fixed list of mechanical
rewrites applied (documented in DESIGN.md, R1..R10) and the contract text spliced in at
well-defined points (after the signature, before a loop body, at function / loop-body entry).

Directive language of a .vrs file (a directive starts with '@' in column 0; everything else is
verbatim Verus text that goes into the verus! block):

  @include <file.vrs>                       textual include (once)
  @props C01 C02 ...                        property tags for the obligations that follow
  @top                                      following verbatim text goes before `verus! {` (use lines)
  @endtop
  @const  <file> <NAME> [exec]              copy a const item; `exec` => R4 (`exec const` with ensures)
     ensures ... / @loop / @loopbody / @entry as for @fn, closed by @end (only with `exec`)
  @struct <file> <Name> [derive=A,B]        copy a struct (attributes dropped, derive list replaced)
  @enum   <file> <Name> [derive=A,B] [only=V1,V2]
  @fn <file> | <container> | <name> [opts]  copy a fn.  container: `fn` (free fn), an impl header as it
                                            appears in the source modulo whitespace (`impl Add<Unit> for Duration`),
                                            or `trait Name`.
       opts: as=<newname>   emit under another name
             inherent=<Type> emit inside `impl <Type> { }` even if the source is a trait impl (R8)
             external_body  emit with #[verifier::external_body] (body kept, not verified)
             nobody         emit as external_body with `unimplemented!()` body (callee outside Verus' reach)
             keepvis        do not force `pub`
             sufficient     the contract is stronger than the property (structure of float code): a failure without a
                            failing input of the statement-level oracle is reported as undecided, not as a violation
             noconst        R10: emit a `const fn` as plain `fn`
     ret <name>              name the return value
     <contract lines>        requires/ensures/decreases/... copied between signature and body
     @entry                  following lines are inserted at the start of the body
     @loop <n>               following lines are inserted before the `{` of the n-th loop (1-based, source order)
     @loopbody <n>           following lines are inserted at the start of the n-th loop's body
     @replace <n-th occurrence> /<literal>/ => /<text>/    declared token-level rewrite (R6/R7), must match
     @beforeloop <n>         following lines (proof hints) are inserted before the n-th loop statement
     @at <n> /<literal>/     following lines (proof hints) are inserted after the n-th occurrence of the literal body text
  @end
  @open <file> | <container>                emit the container header and `{` (for traits / multi-fn impls)
  @close                                    emit `}`

A <file> may carry a macro instantiation suffix:  src/duration/ops.rs!impl_ops_for_type($type=i64)
(R2: the macro_rules transcriber is copied by span, `$type` substituted textually, and indexed again).
"""
import hashlib
import json
import os
import re
import subprocess
import sys

HERE = os.path.dirname(os.path.abspath(__file__))
VERIF = os.path.dirname(HERE)
REPO = os.environ.get("VERIF_REPO", "/repo")
EXTRACT = os.path.join(HERE, "extract", "target", "release", "vx-extract")


class GenError(Exception):
    """Machinery error (anchor lost, directive malformed...). Never a verdict."""


def norm_ws(s):
    return "".join(s.split())


class SourceIndex:
    _cache = {}

    def __init__(self, key, text, index):
        self.key = key
        self.text = text  # bytes
        self.index = index

    @classmethod
    def load(cls, spec):
        """spec: 'src/x.rs' or 'src/x.rs!macro($a=b)'"""
        if spec in cls._cache:
            return cls._cache[spec]
        if "!" in spec:
            path, inst = spec.split("!", 1)
            m = re.fullmatch(r"(\w+)\((.*)\)", inst)
            if not m:
                raise GenError(f"bad macro instantiation {spec}")
            mname, args = m.group(1), m.group(2)
            subst = {}
            for a in args.split(","):
                k, v = a.split("=")
                subst[k.strip()] = v.strip()
            base = cls.load(path)
            mac = [it for it in base.index["items"] if it["kind"] == "macro_rules" and it["name"] == mname]
            if len(mac) != 1 or len(mac[0]["rules"]) != 1:
                raise GenError(f"macro {mname} not found (or not single-rule) in {path}")
            s, e = mac[0]["rules"][0]["transcriber"]
            body = base.text[s + 1:e - 1].decode()
            for k, v in subst.items():
                body = body.replace(k, v)
            text = body.encode()
            p = subprocess.run([EXTRACT, "--text", spec], input=text, capture_output=True)
            if p.returncode != 0:
                raise GenError(f"vx-extract failed on {spec}: {p.stderr.decode()}")
            idx = json.loads(p.stdout)
            obj = cls(spec, text, idx)
            obj.origin = (path, base.line_of(s + 1))
            cls._cache[spec] = obj
            return obj
        full = os.path.join(REPO, spec)
        if not os.path.exists(full):
            raise GenError(f"source file missing: {full}")
        text = open(full, "rb").read()
        p = subprocess.run([EXTRACT, full], capture_output=True)
        if p.returncode != 0:
            raise GenError(f"vx-extract failed on {spec}: {p.stderr.decode()}")
        idx = json.loads(p.stdout)
        obj = cls(spec, text, idx)
        obj.origin = (spec, 1)
        cls._cache[spec] = obj
        return obj

    def line_of(self, off):
        return self.text.count(b"\n", 0, off) + 1

    def src_line(self, off):
        """line number in the real file (macro instantiations are mapped back to the macro body)"""
        path, base = self.origin
        return path, base + self.line_of(off) - 1

    def slice(self, span):
        return self.text[span[0]:span[1]].decode()

    def all_items(self):
        def walk(items):
            for it in items:
                yield it
                if it["kind"] == "mod" and it.get("inline"):
                    # skip test / kani modules
                    continue
        return list(walk(self.index["items"]))

    def find_container(self, container):
        want = norm_ws(container)
        out = []
        for it in self.all_items():
            if it["kind"] == "impl" and norm_ws(it["header"]) == want:
                out.append(it)
            elif it["kind"] == "trait" and norm_ws("trait " + it["name"]) == want:
                out.append(it)
        return out

    def find_fn(self, container, name):
        if norm_ws(container) == "fn":
            c = [it for it in self.all_items() if it["kind"] == "fn" and it["name"] == name]
            if len(c) != 1:
                raise GenError(f"anchor lost: free fn {name} in {self.key}: {len(c)} matches")
            return None, c[0]
        conts = self.find_container(container)
        hits = []
        for c in conts:
            for f in c["items"]:
                if f["kind"] == "fn" and f["name"] == name:
                    hits.append((c, f))
        if len(hits) != 1:
            raise GenError(f"anchor lost: {container} :: {name} in {self.key}: {len(hits)} matches")
        return hits[0]

    def find_item(self, kind, name):
        c = [it for it in self.all_items() if it["kind"] == kind and it.get("name") == name]
        if len(c) != 1:
            # consts may live inside impl blocks: `impl Duration :: const ZERO` handled by caller
            raise GenError(f"anchor lost: {kind} {name} in {self.key}: {len(c)} matches")
        return c[0]


class Emitter:
    """Accumulates generated text with a line map back to its origin."""

    def __init__(self):
        self.lines = []   # text lines
        self.origin = []  # per line: dict(kind='src'|'spec'|'gen', file, line, item)

    def emit(self, text, origin):
        """origin: callable(i)->dict for i-th line of text, or a dict (same for every line)"""
        parts = text.split("\n")
        for i, ln in enumerate(parts):
            self.lines.append(ln)
            o = origin(i) if callable(origin) else dict(origin)
            self.origin.append(o)

    def text(self):
        return "\n".join(self.lines) + "\n"


class Piece:
    """a fn / const being assembled out of source segments and insertions"""

    def __init__(self, src, span):
        self.src = src
        self.start, self.end = span
        self.edits = []  # (offset, delete_len, insert_text, tag, order)

    def delete(self, span, tag="del"):
        self.edits.append((span[0], span[1] - span[0], "", tag, 0))

    def insert(self, off, text, tag="spec", order=1, spec_line=None):
        self.edits.append((off, 0, text, tag, order, spec_line))

    def replace(self, span, text, tag="rw"):
        self.edits.append((span[0], span[1] - span[0], text, tag, 0))

    def render(self):
        """returns list of (text, origin_dict) chunks"""
        edits = sorted(self.edits, key=lambda e: (e[0], e[4]))
        out = []
        pos = self.start
        for e in edits:
            off, dl, ins, tag = e[0], e[1], e[2], e[3]
            spec_line = e[5] if len(e) > 5 else None
            if off < pos:
                if dl == 0 and off >= self.start:
                    raise GenError(f"overlapping edits at {off} in {self.src.key}")
                raise GenError(f"overlapping edits at {off} in {self.src.key}")
            if off > pos:
                out.append(("src", pos, off))
            if ins:
                out.append(("ins", ins, tag, spec_line))
            pos = off + dl
        if pos < self.end:
            out.append(("src", pos, self.end))
        return out


class Generator:
    def __init__(self, spec_dir=None):
        self.spec_dir = spec_dir or os.path.join(VERIF, "spec")
        self.em = Emitter()
        self.top = Emitter()
        self.included = set()
        self.props = []
        self.obligations = []   # dicts: name, kind(fn|lemma|const), props, gen_lines(start,end), src(file, l1, l2, sha), spec(file,line)
        self.items = []         # extracted items (for evidence)
        self.assumptions = []   # (kind, text, where)
        self.open_container = None
        self.spec_files = []

    # ------------------------------------------------------------------ parsing
    def run(self, cluster_file):
        self.process_file(cluster_file)
        if self.open_container:
            raise GenError("@open without @close")
        return self.finish()

    def process_file(self, fname):
        path = fname if os.path.isabs(fname) else os.path.join(self.spec_dir, fname)
        if path in self.included:
            return
        self.included.add(path)
        if not os.path.exists(path):
            raise GenError(f"spec file missing: {path}")
        self.spec_files.append(path)
        lines = open(path).read().split("\n")
        i = 0
        rel = os.path.relpath(path, VERIF)
        verb_start = None
        verb = []

        def flush_verbatim():
            nonlocal verb, verb_start
            if verb:
                self.emit_verbatim(verb, rel, verb_start)
            verb = []
            verb_start = None

        while i < len(lines):
            ln = lines[i]
            if ln.startswith("@"):
                flush_verbatim()
                parts = ln.split(None, 1)
                d = parts[0]
                arg = parts[1].strip() if len(parts) > 1 else ""
                if d == "@include":
                    self.process_file(arg)
                    i += 1
                elif d == "@props":
                    self.props = arg.split()
                    i += 1
                elif d == "@top":
                    j = i + 1
                    while lines[j].strip() != "@endtop":
                        j += 1
                    self.top.emit("\n".join(lines[i + 1:j]), lambda k, b=i + 2: {"kind": "spec", "file": rel, "line": b + k})
                    i = j + 1
                elif d in ("@fn", "@const"):
                    j = i + 1
                    while j < len(lines) and lines[j].strip() != "@end":
                        if lines[j].startswith("@") and lines[j].split()[0] in ("@fn", "@const", "@struct", "@enum", "@include", "@props", "@open", "@close"):
                            raise GenError(f"{rel}:{i+1}: {d} block not closed by @end")
                        j += 1
                    if j >= len(lines):
                        raise GenError(f"{rel}:{i+1}: {d} block not closed by @end")
                    block = lines[i + 1:j]
                    if d == "@fn":
                        self.do_fn(arg, block, rel, i + 1)
                    else:
                        self.do_const(arg, block, rel, i + 1)
                    i = j + 1
                elif d == "@struct":
                    self.do_struct(arg, rel, i + 1)
                    i += 1
                elif d == "@enum":
                    self.do_enum(arg, rel, i + 1)
                    i += 1
                elif d == "@open":
                    self.do_open(arg, rel, i + 1)
                    i += 1
                elif d == "@stdspecs":
                    import stdspecs
                    self.em.emit(stdspecs.verus_text(), {"kind": "gen", "item": "stdspecs"})
                    for e in stdspecs.entries():
                        self.assumptions.append({"kind": "assume_specification", "name": e["name"], "where": "vx/stdspecs.py"})
                    i += 1
                elif d == "@leapdata":
                    import leapdata
                    try:
                        txt = leapdata.generate_vrs()
                    except leapdata.LeapDataError as e:
                        raise GenError(f"leap-second data files: {e}")
                    except OSError as e:
                        raise GenError(f"anchor lost: leap-second data file: {e}")
                    self.em.emit(txt, {"kind": "gen", "item": "leapdata (data/leap-seconds.list, naif0012.txt)"})
                    i += 1
                elif d == "@derive_ord":
                    self.do_derive_ord(arg, rel, i + 1)
                    i += 1
                elif d == "@implset":
                    self.do_implset(arg, rel, i + 1)
                    i += 1
                elif d == "@close":
                    if not self.open_container:
                        raise GenError(f"{rel}:{i+1}: @close without @open")
                    self.em.emit("}", {"kind": "gen"})
                    self.open_container = None
                    i += 1
                else:
                    raise GenError(f"{rel}:{i+1}: unknown directive {d}")
            else:
                if verb_start is None:
                    verb_start = i + 1
                verb.append(ln)
                i += 1
        flush_verbatim()

    # ------------------------------------------------------------------ verbatim
    FN_RE = re.compile(r"^\s*(?:pub\s+)?(?:open\s+|closed\s+)?(?:broadcast\s+)?(proof|exec)?\s*fn\s+(\w+)")
    AXIOM_RE = re.compile(r"^\s*(?:pub\s+)?(?:broadcast\s+)?axiom\s+fn\s+(\w+)")
    ASSUME_SPEC_RE = re.compile(r"assume_specification\s*(?:<[^>]*>)?\s*\[\s*([^\]]+?)\s*\]")

    def emit_verbatim(self, lines, rel, start):
        base = len(self.em.lines)
        self.em.emit("\n".join(lines), lambda k: {"kind": "spec", "file": rel, "line": start + k})
        # register lemmas / helper fns found in verbatim text as obligations
        cur_impl = None
        for k, ln in enumerate(lines):
            s = ln.strip()
            if s.startswith("//"):
                continue
            m = self.FN_RE.match(ln)
            if m and k > 0 and "external_body" in lines[k - 1]:
                m = None
            if m and m.group(1) in ("proof", "exec") or (m and " spec " not in " " + ln and "spec fn" not in ln and m.group(1) is None and re.match(r"^\s*(pub\s+)?fn\s", ln)):
                kind = "lemma" if m.group(1) == "proof" else "fn"
                self.obligations.append({
                    "name": m.group(2), "kind": kind, "props": list(self.props),
                    "gen_line": base + k + 1, "spec": {"file": rel, "line": start + k},
                    "verbatim": True,
                })
            m = self.AXIOM_RE.match(ln)
            if m:
                self.assumptions.append({"kind": "axiom", "name": m.group(1), "where": f"{rel}:{start+k}"})
            for m in self.ASSUME_SPEC_RE.finditer(ln):
                self.assumptions.append({"kind": "assume_specification", "name": norm_ws(m.group(1)), "where": f"{rel}:{start+k}"})
            if re.search(r"\bassume\s*\(", ln) or re.search(r"\badmit\s*\(", ln):
                self.assumptions.append({"kind": "assume", "name": s[:80], "where": f"{rel}:{start+k}"})
            if "external_body" in ln or "verifier::external" in ln:
                self.assumptions.append({"kind": "external", "name": s[:100], "where": f"{rel}:{start+k}"})
            if "uninterp spec fn" in ln:
                self.assumptions.append({"kind": "uninterp", "name": s[:100], "where": f"{rel}:{start+k}"})

    # ------------------------------------------------------------------ helpers
    def parse_args(self, arg, n_pos):
        """split 'a | b | c opt=..' forms"""
        return arg

    def emit_piece(self, piece, item_label):
        """write a Piece; every generated line gets the origin of the first chunk that puts
        non-blank text on it"""
        chunks = piece.render()
        src = piece.src
        first = len(self.em.lines) + 1
        cur = ""
        cur_o = None
        for ch in chunks:
            if ch[0] == "src":
                txt = src.text[ch[1]:ch[2]].decode()
                path, l0 = src.src_line(ch[1])

                def mk(k, path=path, l0=l0):
                    return {"kind": "src", "file": path, "line": l0 + k, "item": item_label}
            else:
                txt, tag, sl = ch[1], ch[2], ch[3]

                def mk(k, tag=tag, sl=sl):
                    if sl:
                        return {"kind": "spec", "file": sl[0], "line": sl[1] + k, "tag": tag, "item": item_label}
                    return {"kind": "gen", "tag": tag, "item": item_label}
            for k, seg in enumerate(txt.split("\n")):
                if k > 0:
                    self.em.lines.append(cur)
                    self.em.origin.append(cur_o or {"kind": "gen", "item": item_label})
                    cur, cur_o = "", None
                if seg.strip() and cur_o is None:
                    cur_o = mk(k)
                cur += seg
        self.em.lines.append(cur)
        self.em.origin.append(cur_o or {"kind": "gen", "item": item_label})
        return first, len(self.em.lines)

    def strip_attrs(self, piece, item):
        for a in item.get("attrs", []):
            if a["span"]:
                piece.delete(a["span"], "R5-attr")

    def parse_block(self, block, rel, line0):
        """split a @fn/@const block into sections"""
        sec = {"contract": [], "entry": [], "loop": {}, "loopbody": {}, "replace": [], "ret": None, "arm": [], "at": []}
        cur = ("contract", None)
        for k, ln in enumerate(block):
            lno = line0 + 1 + k
            s = ln.strip()
            if ln.startswith("@entry"):
                cur = ("entry", None)
                continue
            if ln.startswith("@beforeloop"):
                cur = ("beforeloop", int(ln.split()[1]))
                sec.setdefault("beforeloop", {}).setdefault(cur[1], [])
                continue
            if ln.startswith("@loopbody"):
                cur = ("loopbody", int(ln.split()[1]))
                sec["loopbody"].setdefault(cur[1], [])
                continue
            if ln.startswith("@loop"):
                cur = ("loop", int(ln.split()[1]))
                sec["loop"].setdefault(cur[1], [])
                continue
            if ln.startswith("@at") or ln.startswith("@before"):
                m = re.match(r"@(at|before)\s+(\d+)\s+/(.*)/\s*$", ln)
                if not m:
                    raise GenError(f"{rel}:{lno}: malformed @at/@before")
                sec["at"].append([int(m.group(2)), m.group(3), [], lno, m.group(1)])
                cur = ("at", len(sec["at"]) - 1)
                continue
            if ln.startswith("@arm"):
                m = re.match(r"@arm\s+(\d+)\s+(\S+)\s*=>\s*(.*)$", ln)
                if not m:
                    raise GenError(f"{rel}:{lno}: malformed @arm")
                sec["arm"].append((int(m.group(1)), m.group(2), m.group(3), lno))
                continue
            if ln.startswith("@replace"):
                m = re.match(r"@replace\s+(\d+)\s+/(.*?)/\s*=>\s*/(.*)/\s*$", ln)
                if not m:
                    raise GenError(f"{rel}:{lno}: malformed @replace")
                sec["replace"].append((int(m.group(1)), m.group(2), m.group(3), lno))
                continue
            if cur[0] == "contract" and s.startswith("ret ") and sec["ret"] is None and not sec["contract"]:
                sec["ret"] = s.split()[1]
                continue
            if cur[0] == "beforeloop":
                sec["beforeloop"][cur[1]].append((ln, lno))
            elif cur[0] == "at":
                sec["at"][cur[1]][2].append((ln, lno))
            elif cur[0] in ("contract", "entry"):
                sec[cur[0]].append((ln, lno))
            else:
                sec[cur[0]][cur[1]].append((ln, lno))
        return sec

    @staticmethod
    def join_lines(pairs):
        return "\n".join(p[0] for p in pairs)

    # ------------------------------------------------------------------ @fn
    def do_fn(self, arg, block, rel, lno):
        parts = [p.strip() for p in arg.split("|")]
        if len(parts) != 3:
            raise GenError(f"{rel}:{lno}: @fn needs 'file | container | name [opts]'")
        fspec, container, rest = parts
        toks = rest.split()
        name = toks[0]
        opts = {}
        for t in toks[1:]:
            if "=" in t:
                k, v = t.split("=", 1)
                opts[k] = v
            else:
                opts[t] = True
        src = SourceIndex.load(fspec)
        cont, f = src.find_fn(container, name)
        sec = self.parse_block(block, rel, lno)
        if f["body"] is None:
            raise GenError(f"{rel}:{lno}: fn {name} has no body")
        piece = Piece(src, f["span"])
        self.strip_attrs(piece, f)
        # visibility (R3)
        in_trait_impl = cont is not None and cont["kind"] == "impl" and cont.get("trait")
        in_trait = cont is not None and cont["kind"] == "trait"
        emit_inherent = opts.get("inherent")
        sig_start = f["constness"][0] if f["constness"] else f["fn_tok"][0]
        if f["vis"]:
            piece.delete(f["vis"], "R3-vis")
            sig_start = min(sig_start, f["vis"][0])
        want_pub = (not in_trait_impl and not in_trait) or emit_inherent
        if want_pub and not opts.get("keepvis"):
            piece.insert(f["fn_tok"][0] if not f["constness"] else f["constness"][0], "pub ", "R3-vis", order=-1)
        if f["constness"] and opts.get("noconst"):
            # R10: `const fn` -> `fn` (Verus: const fn with contracts / loops is not supported uniformly)
            piece.delete((f["constness"][0], f["fn_tok"][0]), "R10-const")
        if opts.get("as"):
            piece.replace(f["ident"], opts["as"], "rename")
        # R1: by-value `mut` parameters
        prologue = []
        rename_self = False
        for inp in f["inputs"]:
            if inp.get("mut_tok"):
                mt = inp["mut_tok"]
                # delete `mut ` (token + following whitespace)
                end = mt[1]
                while src.text[end:end + 1] in (b" ", b"\t"):
                    end += 1
                piece.delete((mt[0], end), "R1-mut")
                if inp["kind"] == "receiver":
                    prologue.append("let mut self_ = self;")
                    rename_self = True
                else:
                    prologue.append(f"let mut {inp['name']} = {inp['name']};")
        if rename_self:
            for sp in f["self_tokens"]:
                piece.replace(sp, "self_", "R1-self")
        # return name
        if opts.get("retty") and f["ret"] is not None:
            # R8: an associated type of the trait (`Self::Item`) named in the signature is spelled out when the method is
            # emitted as an inherent fn; the spec gives the concrete type, rustc checks it against the body
            ty = f["ret"]["ty"]
            piece.replace((ty[0], ty[1]), opts["retty"].replace("~", " "), "R8-retty")
            if sec["ret"]:
                piece.insert(ty[0], f"({sec['ret']}: ", "ret", order=-1)
                piece.insert(ty[1], ")", "ret", order=1)
        elif sec["ret"]:
            if f["ret"] is None:
                raise GenError(f"{rel}:{lno}: ret given but fn {name} returns ()")
            ty = f["ret"]["ty"]
            piece.insert(ty[0], f"({sec['ret']}: ", "ret", order=0)
            piece.insert(ty[1], ")", "ret", order=0)
        body_s, body_e = f["body"]
        # contract between signature and body
        contract = self.join_lines(sec["contract"]).rstrip()
        if contract.strip():
            first_spec_line = sec["contract"][0][1]
            piece.insert(body_s, "\n" + contract + "\n", "contract", order=0, spec_line=(rel, first_spec_line - 1))
        external = opts.get("external_body") or opts.get("nobody")
        if opts.get("nobody"):
            piece.replace((body_s, body_e), "{ unimplemented!() }", "nobody")
        else:
            entry_txt = ""
            if prologue:
                entry_txt += "\n" + " ".join(prologue)
            if entry_txt:
                piece.insert(body_s + 1, entry_txt, "R1-prologue", order=0)
            if sec["entry"]:
                piece.insert(body_s + 1, "\n" + self.join_lines(sec["entry"]), "entry", order=1, spec_line=(rel, sec["entry"][0][1] - 1))
            nloops = len(f["loops"])
            for n, pairs in sec["loop"].items():
                if n < 1 or n > nloops:
                    raise GenError(f"{rel}:{lno}: anchor lost: fn {name} has {nloops} loops, spec addresses loop {n}")
                lp = f["loops"][n - 1]
                piece.insert(lp["body"][0], "\n" + self.join_lines(pairs) + "\n", "loop-inv", order=0, spec_line=(rel, pairs[0][1] - 1))
            for n, pairs in sec.get("beforeloop", {}).items():
                if n < 1 or n > nloops:
                    raise GenError(f"{rel}:{lno}: anchor lost: fn {name} has {nloops} loops, spec addresses loop {n}")
                if pairs:
                    piece.insert(f["loops"][n - 1]["span"][0], self.join_lines(pairs) + "\n", "hint", order=0, spec_line=(rel, pairs[0][1]))
            for n, pairs in sec["loopbody"].items():
                if n < 1 or n > nloops:
                    raise GenError(f"{rel}:{lno}: anchor lost: fn {name} has {nloops} loops, spec addresses loop body {n}")
                lp = f["loops"][n - 1]
                piece.insert(lp["body"][0] + 1, "\n" + self.join_lines(pairs), "loop-hint", order=0, spec_line=(rel, pairs[0][1] - 1))
            # R6: declared replacement of whole match-arm bodies (float arms -> havoc)
            for (nth, pat, new, l) in sec["arm"]:
                if nth < 1 or nth > len(f["matches"]):
                    raise GenError(f"{rel}:{l}: anchor lost: fn {name} has {len(f['matches'])} match expressions, spec addresses match {nth}")
                arms = [a for a in f["matches"][nth - 1]["arms"] if a["pat"] == norm_ws(pat)]
                if len(arms) != 1:
                    raise GenError(f"{rel}:{l}: anchor lost: match {nth} of fn {name} has {len(arms)} arms with pattern {pat}")
                piece.replace(tuple(arms[0]["body"]), new, "R6-arm")
            # proof hints anchored after the n-th occurrence of a literal piece of the body text
            body_txt0 = src.text[body_s:body_e].decode()
            for (nth, lit, pairs, l, where) in sec["at"]:
                idxs = [m.start() for m in re.finditer(re.escape(lit), body_txt0)]
                if len(idxs) < nth or nth < 1:
                    raise GenError(f"{rel}:{l}: anchor lost: @{where} target /{lit}/ occurrence {nth} not found in fn {name}")
                boff = body_s + len(body_txt0[:idxs[nth - 1] + (len(lit) if where == "at" else 0)].encode())
                if pairs:
                    piece.insert(boff, "\n" + self.join_lines(pairs) + "\n", "hint", order=2, spec_line=(rel, pairs[0][1] - 1))
            # declared literal rewrites inside the body
            body_txt = src.text[body_s:body_e].decode()
            for (nth, lit, new, l) in sec["replace"]:
                idxs = [m.start() for m in re.finditer(re.escape(lit), body_txt)]
                if len(idxs) < nth or nth < 1:
                    raise GenError(f"{rel}:{l}: anchor lost: @replace target /{lit}/ occurrence {nth} not found in fn {name}")
                boff = body_s + len(body_txt[:idxs[nth - 1]].encode())
                piece.replace((boff, boff + len(lit.encode())), new, "declared-rewrite")
        # wrapper
        label = f"{norm_ws(container)}::{opts.get('as', name)}" if norm_ws(container) != "fn" else opts.get("as", name)
        pre = ""
        if external:
            pre = "#[verifier::external_body]\n"
        close = None
        if self.open_container:
            pass
        elif emit_inherent:
            self.em.emit(f"impl {emit_inherent} {{", {"kind": "gen"})
            close = "}"
        elif cont is not None and cont["kind"] == "impl":
            hdr = src.text[cont["impl_tok"][0]:cont["brace"][0]].decode().rstrip()
            self.em.emit(hdr + " {", {"kind": "gen", "item": label})
            for it in cont["items"]:
                if it["kind"] == "type":
                    p2 = Piece(src, it["span"])
                    self.strip_attrs(p2, it)
                    self.emit_piece(p2, label)
            close = "}"
        elif cont is not None and cont["kind"] == "trait":
            raise GenError(f"{rel}:{lno}: trait methods need an enclosing @open")
        if opts.get("rlimit"):
            pre += f"#[verifier::rlimit({int(opts['rlimit'])})]\n"
        if pre:
            self.em.emit(pre.rstrip("\n"), {"kind": "gen"})
        g1, g2 = self.emit_piece(piece, label)
        if close:
            self.em.emit(close, {"kind": "gen"})
        path, l1 = src.src_line(f["span"][0])
        _, l2 = src.src_line(f["span"][1])
        sha = hashlib.sha256(src.text[f["span"][0]:f["span"][1]]).hexdigest()
        entry = {
            "name": opts.get("as", name), "label": label, "kind": "fn", "props": list(self.props),
            "gen_lines": [g1, g2], "src": {"file": path, "lines": [l1, l2], "sha256": sha},
            "spec": {"file": rel, "line": lno}, "external": bool(external),
            "rewrites": sorted({e[3] for e in piece.edits if e[3].startswith("R") or e[3] in ("declared-rewrite", "nobody", "rename")}),
            "contract": contract.strip()[:2000],
        }
        if opts.get("sufficient"):
            # the contract is a SUFFICIENT condition for the property (e.g. an exact float expression where the property only
            # asks for a few ulp): its failure alone is not a violation -- see `check`
            entry["sufficient"] = True
        self.items.append(entry)
        if external:
            self.assumptions.append({"kind": "external_body", "name": label, "where": f"{rel}:{lno}",
                                     "contract": contract.strip()[:400]})
        else:
            self.obligations.append(entry)

    # ------------------------------------------------------------------ @const
    def do_const(self, arg, block, rel, lno):
        toks = arg.split()
        fspec = toks[0]
        opts = set()
        rest = toks[1:]
        while rest and rest[-1] in ("exec",):
            opts.add(rest.pop())
        name = " ".join(rest)
        src = SourceIndex.load(fspec)
        it = None
        if "::" in name:
            cont_name, cname = name.rsplit("::", 1)
            for c in src.find_container(cont_name):
                for x in c["items"]:
                    if x["kind"] == "const" and x["name"] == cname:
                        it = x
            if it is None:
                raise GenError(f"anchor lost: const {name} in {fspec}")
            name = cname
        else:
            it = src.find_item("const", name)
        sec = self.parse_block(block, rel, lno)
        piece = Piece(src, it["span"])
        self.strip_attrs(piece, it)
        if it["vis"]:
            piece.delete(it["vis"], "R3-vis")
        contract = self.join_lines(sec["contract"]).rstrip()
        label = f"const {name}"
        if "exec" in opts:
            piece.insert(it["const_tok"][0], "pub exec ", "R4-exec", order=-1)
            # `: T = EXPR;`  ->  `: T ensures ... { EXPR }`
            ty_end = it["ty"][1]
            ex_s, ex_e = it["expr"]
            entry = ("\n" + self.join_lines(sec["entry"]) + "\n") if sec["entry"] else ""
            piece.replace((ty_end, ex_s), "\n" + contract + "\n{ " + entry, "R4-contract")
            piece.replace((ex_e, it["span"][1]), " }", "R4-close")
            # loops inside the initialiser
            # (index them by re-parsing the expression as a fn body)
            if sec["loop"] or sec["loopbody"]:
                expr_txt = src.text[ex_s:ex_e]
                wrapper = b"fn __w() " + (expr_txt if expr_txt.lstrip().startswith(b"{") else b"{" + expr_txt + b"}")
                p = subprocess.run([EXTRACT, "--text", "const-init"], input=wrapper, capture_output=True)
                if p.returncode != 0:
                    raise GenError(f"cannot index const initialiser of {name}")
                wf = json.loads(p.stdout)["items"][0]
                shift = ex_s - len(b"fn __w() ") - (0 if expr_txt.lstrip().startswith(b"{") else 1)
                for n, pairs in sec["loop"].items():
                    if n > len(wf["loops"]):
                        raise GenError(f"{rel}:{lno}: anchor lost: const {name} loop {n}")
                    piece.insert(wf["loops"][n - 1]["body"][0] + shift, "\n" + self.join_lines(pairs) + "\n", "loop-inv", spec_line=(rel, pairs[0][1] - 1))
                for n, pairs in sec["loopbody"].items():
                    if n > len(wf["loops"]):
                        raise GenError(f"{rel}:{lno}: anchor lost: const {name} loop body {n}")
                    piece.insert(wf["loops"][n - 1]["body"][0] + 1 + shift, "\n" + self.join_lines(pairs), "loop-hint", spec_line=(rel, pairs[0][1] - 1))
        else:
            piece.insert(it["const_tok"][0], "pub ", "R3-vis", order=-1)
        g1, g2 = self.emit_piece(piece, label)
        path, l1 = src.src_line(it["span"][0])
        _, l2 = src.src_line(it["span"][1])
        sha = hashlib.sha256(src.text[it["span"][0]:it["span"][1]]).hexdigest()
        entry = {"name": name, "label": label, "kind": "const", "props": list(self.props),
                 "gen_lines": [g1, g2], "src": {"file": path, "lines": [l1, l2], "sha256": sha},
                 "spec": {"file": rel, "line": lno}, "contract": contract.strip()[:2000],
                 "rewrites": sorted({e[3] for e in piece.edits if e[3].startswith("R")})}
        self.items.append(entry)
        if "exec" in opts:
            self.obligations.append(entry)

    # ------------------------------------------------------------------ @struct / @enum
    def do_struct(self, arg, rel, lno):
        toks = arg.split()
        fspec, name = toks[0], toks[1]
        opts = dict(t.split("=", 1) for t in toks[2:] if "=" in t)
        src = SourceIndex.load(fspec)
        it = src.find_item("struct", name)
        piece = Piece(src, it["span"])
        self.strip_attrs(piece, it)
        if it["vis"]:
            piece.delete(it["vis"], "R3-vis")
        piece.insert(it["struct_tok"][0], "pub ", "R3-vis", order=-1)
        for f in it["fields"]:
            for a in f["attrs"]:
                piece.delete(a["span"], "R5-attr")
            if f["vis"]:
                piece.replace(f["vis"], "pub", "R3-vis")
            else:
                piece.insert(f["span"][0], "pub ", "R3-vis")
        derive = opts.get("derive")
        if derive:
            self.em.emit(f"#[derive({derive.replace(',', ', ')})]", {"kind": "gen"})
        label = f"struct {name}"
        g1, g2 = self.emit_piece(piece, label)
        path, l1 = src.src_line(it["span"][0])
        _, l2 = src.src_line(it["span"][1])
        self.items.append({"name": name, "label": label, "kind": "struct", "gen_lines": [g1, g2],
                           "src": {"file": path, "lines": [l1, l2], "sha256": hashlib.sha256(src.text[it["span"][0]:it["span"][1]]).hexdigest()},
                           "derive_in_source": it["derive"], "fields": [(f["name"], f["ty_text"]) for f in it["fields"]],
                           "spec": {"file": rel, "line": lno}, "rewrites": ["R3-vis", "R5-attr"]})
        return it

    def do_enum(self, arg, rel, lno):
        toks = arg.split()
        fspec, name = toks[0], toks[1]
        opts = dict(t.split("=", 1) for t in toks[2:] if "=" in t)
        src = SourceIndex.load(fspec)
        it = src.find_item("enum", name)
        piece = Piece(src, it["span"])
        self.strip_attrs(piece, it)
        if it["vis"]:
            piece.delete(it["vis"], "R3-vis")
        piece.insert(it["enum_tok"][0], "pub ", "R3-vis", order=-1)
        only = opts.get("only")
        rew = ["R3-vis", "R5-attr"]
        for v in it["variants"]:
            dropped = bool(only) and v["name"] not in only.split(",")
            if not dropped:
                for a in v["attrs"]:
                    piece.delete(a["span"], "R5-attr")
            if dropped:
                # R9: drop variants carrying external types that verified code never builds
                end = v["span"][1]
                while src.text[end:end + 1] in (b" ", b"\t", b"\n"):
                    end += 1
                if src.text[end:end + 1] == b",":
                    end += 1
                piece.delete((v["span"][0], end), "R9-variant")
                rew.append("R9-variant")
        derive = opts.get("derive")
        if derive:
            self.em.emit(f"#[derive({derive.replace(',', ', ')})]", {"kind": "gen"})
        label = f"enum {name}"
        g1, g2 = self.emit_piece(piece, label)
        path, l1 = src.src_line(it["span"][0])
        _, l2 = src.src_line(it["span"][1])
        self.items.append({"name": name, "label": label, "kind": "enum", "gen_lines": [g1, g2],
                           "src": {"file": path, "lines": [l1, l2], "sha256": hashlib.sha256(src.text[it["span"][0]:it["span"][1]]).hexdigest()},
                           "derive_in_source": it["derive"], "variants": [v["name"] for v in it["variants"]],
                           "spec": {"file": rel, "line": lno}, "rewrites": sorted(set(rew))})
        return it

    def do_derive_ord(self, arg, rel, lno):
        """@derive_ord <file> <Struct> <specfn>: emit the meaning of #[derive(PartialOrd, Ord)] for a struct of
        integer fields -- lexicographic comparison in field declaration order -- generated from the field order
        and derive list found in the source (so that swapping fields changes the spec)."""
        toks = arg.split()
        fspec, name, fn = toks[0], toks[1], toks[2]
        src = SourceIndex.load(fspec)
        it = src.find_item("struct", name)
        if "PartialOrd" not in it["derive"] or "Ord" not in it["derive"]:
            raise GenError(f"{rel}:{lno}: anchor lost: struct {name} no longer derives PartialOrd and Ord (derive list: {it['derive']})")
        ints = {"i8", "i16", "i32", "i64", "i128", "u8", "u16", "u32", "u64", "u128", "usize", "isize"}
        body = ""
        for f in it["fields"]:
            if f["ty_text"] not in ints:
                raise GenError(f"{rel}:{lno}: @derive_ord supports integer fields only, {name}.{f['name']}: {f['ty_text']}")
            body += f"    if a.{f['name']} < b.{f['name']} {{ Ordering::Less }} else if a.{f['name']} > b.{f['name']} {{ Ordering::Greater }} else\n"
        body += "    { Ordering::Equal }\n"
        txt = (f"/// generated by @derive_ord from the field order of `struct {name}` ({', '.join(f['name'] for f in it['fields'])}) in {fspec}\n"
               f"pub open spec fn {fn}(a: {name}, b: {name}) -> Ordering {{\n{body}}}\n"
               f"impl PartialOrdSpecImpl for {name} {{\n"
               f"    open spec fn obeys_partial_cmp_spec() -> bool {{ true }}\n"
               f"    open spec fn partial_cmp_spec(&self, o: &Self) -> Option<Ordering> {{ Some({fn}(*self, *o)) }}\n}}\n"
               f"impl OrdSpecImpl for {name} {{\n"
               f"    open spec fn obeys_cmp_spec() -> bool {{ true }}\n"
               f"    open spec fn cmp_spec(&self, o: &Self) -> Ordering {{ {fn}(*self, *o) }}\n}}")
        self.em.emit(txt, {"kind": "gen", "item": f"derive_ord {name}"})
        self.assumptions.append({"kind": "derive-semantics", "name": f"#[derive(PartialOrd, Ord)] on {name} compares fields lexicographically in declaration order",
                                 "where": f"{rel}:{lno}"})

    def do_implset(self, arg, rel, lno):
        """@implset <file> | <impl header> | <fn> <fn> ...: the trait impl must define exactly these methods.  A trait impl that
        starts overriding a PROVIDED method (Iterator::nth, PartialEq::ne, PartialOrd::lt, Ord::max, ...) changes behaviour
        the property speaks about without touching any function under contract -- the contracts on `next`, `eq`, `cmp`
        would keep verifying.  Such a change is outside what the contracts decide: undecided (exit 2), never a pass."""
        parts = [q.strip() for q in arg.split("|")]
        fspec, container, allowed = parts[0], parts[1], set(parts[2].split())
        src = SourceIndex.load(fspec)
        conts = src.find_container(container)
        if len(conts) != 1:
            raise GenError(f"{rel}:{lno}: anchor lost: {container} in {fspec}: {len(conts)} matches")
        have = {f["name"] for f in conts[0]["items"] if f["kind"] == "fn"}
        extra, gone = sorted(have - allowed), sorted(allowed - have)
        if extra:
            raise GenError(f"{rel}:{lno}: `{container}` now also defines {extra}: an override of a provided trait method is not under contract "
                           f"(the verified method(s) {sorted(allowed)} no longer determine what callers of the trait observe)")
        if gone:
            raise GenError(f"{rel}:{lno}: anchor lost: `{container}` no longer defines {gone}")

    def do_open(self, arg, rel, lno):
        parts = [p.strip() for p in arg.split("|")]
        fspec, container = parts[0], parts[1]
        src = SourceIndex.load(fspec)
        conts = src.find_container(container)
        if len(conts) == 0 or (len(conts) > 1 and any(c["kind"] != "impl" or c.get("trait") for c in conts)):
            raise GenError(f"{rel}:{lno}: anchor lost: container {container} in {fspec}: {len(conts)} matches")
        c = conts[0]
        if c["kind"] == "trait":
            # header: from after attrs to the brace
            start = c["span"][0]
            for a in c["attrs"]:
                start = max(start, a["span"][1])
            hdr = src.text[start:c["brace"][0]].decode().strip()
            if not hdr.startswith("pub"):
                hdr = "pub " + hdr
        else:
            hdr = src.text[c["impl_tok"][0]:c["brace"][0]].decode().strip()
        self.em.emit(hdr + " {", {"kind": "gen"})
        if c["kind"] == "impl":
            for it in c["items"]:
                if it["kind"] == "type":
                    p2 = Piece(src, it["span"])
                    self.strip_attrs(p2, it)
                    self.emit_piece(p2, container)
        self.open_container = c

    # ------------------------------------------------------------------ output
    def finish(self):
        head = ["#![allow(unused_imports, unused_variables, unused_mut, dead_code, unused_assignments, unused_parens, non_snake_case, unreachable_code, unused_comparisons)]"]
        out_lines = head + self.top.lines + ["verus! {"] + self.em.lines + ["} // verus!", "fn main() {}"]
        origin = [{"kind": "gen"}] * len(head) + self.top.origin + [{"kind": "gen"}] + self.em.origin + [{"kind": "gen"}] * 2
        shift = len(head) + len(self.top.lines) + 1
        for o in self.obligations + self.items:
            if "gen_lines" in o and not o.get("_shifted"):
                o["gen_lines"] = [o["gen_lines"][0] + shift, o["gen_lines"][1] + shift]
                o["_shifted"] = True
            if "gen_line" in o and not o.get("_shifted"):
                o["gen_line"] = o["gen_line"] + shift
                o["_shifted"] = True
        for o in self.obligations + self.items:
            o.pop("_shifted", None)
        return "\n".join(out_lines) + "\n", origin


def generate(cluster_file, out_path=None):
    g = Generator()
    text, origin = g.run(cluster_file)
    meta = {
        "cluster": cluster_file,
        "obligations": g.obligations,
        "items": g.items,
        "assumptions": g.assumptions,
        "spec_files": [os.path.relpath(p, VERIF) for p in g.spec_files],
        "origin": origin,
        "sha256": hashlib.sha256(text.encode()).hexdigest(),
    }
    if out_path:
        os.makedirs(os.path.dirname(out_path), exist_ok=True)
        # atomic replace: two checks running at the same time generate the same text for the same tree
        for path, payload in ((out_path, text), (out_path + ".meta.json", json.dumps(meta))):
            tmp = f"{path}.{os.getpid()}.tmp"
            with open(tmp, "w") as fh:
                fh.write(payload)
            os.replace(tmp, path)
    return text, meta


if __name__ == "__main__":
    try:
        cl = sys.argv[1]
        out = sys.argv[2] if len(sys.argv) > 2 else os.path.join(VERIF, "build", "gen", os.path.splitext(os.path.basename(cl))[0] + ".rs")
        text, meta = generate(cl, out)
        print(f"generated {out}: {len(text.splitlines())} lines, {len(meta['obligations'])} obligations, {len(meta['items'])} extracted items, {len(meta['assumptions'])} assumptions")
    except GenError as e:
        print(f"vx-gen: MACHINERY ERROR: {e}", file=sys.stderr)
        sys.exit(2)
