#!/usr/bin/env python3
"""Mechanical mutation run: how many small syntactic changes inside the functions under contract do the checks notice?

For every function that is an obligation of the Verus clusters (file and line range from the generator's meta data) a few
single-token mutants are produced (arithmetic / comparison / boolean operator swapped, integer literal + 1, checked_/
saturating_/euclid method swapped).  Each mutant is applied to a scratch clone of /repo, must compile (`cargo check`), and
is then given to the quick check of the property the function is tagged with, run from a snapshot of /verif against the
clone (VERIF_REPO) with the Kani groups skipped (VERIF_SKIP_KANI=1, a development switch: the mutated functions are Verus
obligations).  Outcome per mutant: killed (exit 1), undecided (exit 2), survived (exit 0), noncompiling.  Survivors are
either equivalent mutants or holes in the contracts and are triaged by hand (seeded/mutation/README.md).

usage: mutate.py [--workers N] [--per-fn K] [--only substring] [--out file]
Scratch directories live under /tmp/mut-w<i> and are removed at the end.
"""
import argparse
import json
import os
import re
import shutil
import subprocess
import sys
import threading

V = os.path.dirname(os.path.dirname(os.path.abspath(__file__)))

SWAPS = [
    (r" \+ ", " - "), (r" - ", " + "), (r" \* ", " / "),
    (r" <= ", " < "), (r" >= ", " > "), (r" < ", " <= "), (r" > ", " >= "),
    (r" == ", " != "), (r" != ", " == "), (r" && ", " || "), (r" \|\| ", " && "),
    (r"\.checked_add\(", ".checked_sub("), (r"\.checked_sub\(", ".checked_add("),
    (r"\.saturating_add\(", ".saturating_sub("), (r"\.saturating_sub\(", ".saturating_add("),
    (r"\.div_euclid\(", ".wrapping_div("), (r"\.rem_euclid\(", ".wrapping_rem("),
    (r"\bSelf::MAX\b", "Self::MIN"), (r"\bSelf::MIN\b", "Self::MAX"), (r"\btrue\b", "false"), (r"\bfalse\b", "true"),
    (r" \+= ", " -= "), (r" -= ", " += "),
    (r"\bUnit::Day\b", "Unit::Hour"), (r"\bUnit::Second\b", "Unit::Millisecond"), (r"\bUnit::Century\b", "Unit::Day"),
    (r"\bUnit::Nanosecond\b", "Unit::Microsecond"), (r"\bUnit::Hour\b", "Unit::Minute"),
    (r"\bTimeScale::TAI\b", "TimeScale::TT"), (r"\bTimeScale::UTC\b", "TimeScale::TAI"), (r"\bTimeScale::TT\b", "TimeScale::TAI"),
    (r"\bTimeScale::GPST\b", "TimeScale::GST"), (r"\bTimeScale::GST\b", "TimeScale::BDT"), (r"\bTimeScale::BDT\b", "TimeScale::QZSST"),
    (r"\bTimeScale::QZSST\b", "TimeScale::BDT"),
    (r"\.to_tai_duration\(\)", ".to_tt_duration()"), (r"\.to_utc_duration\(\)", ".to_tai_duration()"), (r"\.to_tt_duration\(\)", ".to_tai_duration()"),
    (r"\bMJD_J1900\b", "MJD_OFFSET"), (r"\.to_seconds\(\)", ".to_unit(Unit::Millisecond)"),
]
LIT = re.compile(r"(?<![\w.])(\d[\d_]*)(?![\w.])")


def mutants_of(lines, l1, l2, per_fn):
    """yield (line_no, description, new_line) -- at most per_fn, different operators first"""
    out, used_ops = [], set()
    body_started = False
    for ln in range(l1, l2 + 1):
        text = lines[ln - 1]
        if "{" in text:
            body_started = True
        if not body_started or text.lstrip().startswith("//") or text.lstrip().startswith("#["):
            continue
        code = text.split("//")[0]
        for pat, rep in SWAPS:
            if pat in used_ops:
                continue
            m = re.search(pat, code)
            if m:
                new = text[:m.start()] + rep + text[m.end():]
                out.append((ln, f"`{m.group(0).strip()}` -> `{rep.strip()}`", new))
                used_ops.add(pat)
                break
        else:
            m = LIT.search(code)
            if m and "lit" not in used_ops and not code.lstrip().startswith(("let _", "use ")):
                v = int(m.group(1).replace("_", ""))
                new = text[:m.start(1)] + str(v + 1) + text[m.end(1):]
                out.append((ln, f"literal {m.group(1)} -> {v + 1}", new))
                used_ops.add("lit")
        if len(out) >= per_fn:
            break
    return out[:per_fn]


def collect(per_fn, only):
    subprocess.run([sys.executable, os.path.join(V, "vx", "gen.py"), "gregorian.vrs"], capture_output=True)
    subprocess.run([sys.executable, os.path.join(V, "vx", "gen.py"), "leap.vrs"], capture_output=True)
    props_cfg = json.load(open(os.path.join(V, "spec", "properties.json")))
    seen, jobs = set(), []
    for cl in ("gregorian", "leap"):
        meta = json.load(open(os.path.join(V, "build", "gen", cl + ".rs.meta.json")))
        for it in meta["obligations"]:
            if it.get("kind") != "fn" or it.get("external"):
                continue
            src = it["src"]
            key = (src["file"], src["lines"][0])
            if key in seen or (only and only not in it["label"]):
                continue
            seen.add(key)
            claimed = [p for p in it.get("props", []) if p in props_cfg and not props_cfg[p].get("not_applicable")]
            if not claimed:
                continue
            path = os.path.join("/repo", src["file"]) if not src["file"].startswith("/") else src["file"]
            rel = os.path.relpath(path, "/repo")
            lines = open(path).read().split("\n")
            for ln, desc, new in mutants_of(lines, src["lines"][0], src["lines"][1], per_fn):
                jobs.append({"fn": it["label"], "file": rel, "line": ln, "what": desc, "new": new, "prop": claimed[0]})
    return jobs


def worker(i, jobs, results, lock):
    base = f"/tmp/mut-w{i}"
    shutil.rmtree(base, ignore_errors=True)
    os.makedirs(base)
    vs, rs = os.path.join(base, "verif"), os.path.join(base, "repo")
    subprocess.run(["rsync", "-a", "--exclude", "build/replay-target", "--exclude", "build/replay", "--exclude", "build/seed-evidence",
                    "--exclude", "build/kani-target", V + "/", vs + "/"], check=True)
    subprocess.run(["git", "clone", "-q", "/repo", rs], check=True)
    subprocess.run(["sed", "-i", f's#path = "/repo"#path = "{rs}"#', os.path.join(vs, "replay", "Cargo.toml")], check=True)
    env = dict(os.environ, CARGO_NET_OFFLINE="true", CARGO_TARGET_DIR=os.path.join(base, "target"), VERIF_REPO=rs, VERIF_SKIP_KANI="1",
               VERIF_EVIDENCE_DIR=os.path.join(vs, "build", "mut-evidence"))
    while True:
        with lock:
            if not jobs:
                break
            job = jobs.pop(0)
        path = os.path.join(rs, job["file"])
        orig = open(path).read()
        lines = orig.split("\n")
        lines[job["line"] - 1] = job["new"]
        open(path, "w").write("\n".join(lines))
        rec = {k: job[k] for k in ("fn", "file", "line", "what", "prop")}
        try:
            c = subprocess.run(["cargo", "check", "--offline", "--lib", "-q"], cwd=rs, env=env, capture_output=True, text=True, timeout=900)
            if c.returncode != 0:
                rec["outcome"] = "noncompiling"
            else:
                p = subprocess.run([os.path.join(vs, "check"), job["prop"]], cwd=vs, env=env, capture_output=True, text=True, timeout=2400)
                rec["exit"] = p.returncode
                rec["outcome"] = {0: "survived", 1: "killed", 2: "undecided"}.get(p.returncode, "error")
                obl = re.findall(r"-- failed obligation (\S+) \[([^\]]*)\]", p.stdout)
                rec["by"] = "; ".join(sorted({f"{o} [{k}]" for o, k in obl}))[:300] or ("bounded stand-in" if "bounded stand-in" in p.stdout and p.returncode == 1 else "")
                if p.returncode == 2:
                    rec["by"] = "; ".join(re.findall(r"UNDECIDED property=\S+ reason=(.*)", p.stdout))[:300]
                rec["input"] = bool(re.search(r"failing input", p.stdout))
        except subprocess.TimeoutExpired:
            rec["outcome"] = "timeout"
        finally:
            open(path, "w").write(orig)
        with lock:
            results.append(rec)
            print(f"[{len(results)}] {rec['outcome']:12s} {rec['prop']} {rec['fn']} L{rec['line']} {rec['what']}  {rec.get('by', '')[:90]}", flush=True)
    shutil.rmtree(base, ignore_errors=True)


def main():
    ap = argparse.ArgumentParser()
    ap.add_argument("--workers", type=int, default=6)
    ap.add_argument("--per-fn", type=int, default=2)
    ap.add_argument("--only", default="")
    ap.add_argument("--out", default=os.path.join(V, "seeded", "mutation", "results.json"))
    a = ap.parse_args()
    jobs = collect(a.per_fn, a.only)
    print(f"{len(jobs)} mutants", flush=True)
    results, lock = [], threading.Lock()
    ths = [threading.Thread(target=worker, args=(i, jobs, results, lock)) for i in range(a.workers)]
    for t in ths:
        t.start()
    for t in ths:
        t.join()
    os.makedirs(os.path.dirname(a.out), exist_ok=True)
    results.sort(key=lambda r: (r["file"], r["line"]))
    json.dump(results, open(a.out, "w"), indent=1)
    from collections import Counter
    print(Counter(r["outcome"] for r in results))


if __name__ == "__main__":
    main()
