#!/bin/bash
# dev helper: generate + verify one cluster, print errors
cd /verif
python3 vx/gen.py $1.vrs || exit 2
verus build/gen/$1.rs --output-json --time ${@:2} > build/gen/$1.out.json 2> build/gen/$1.err.txt; echo exit=$?
head -${LINES_MAX:-120} build/gen/$1.err.txt
python3 - <<PY
import json
try:
    d=json.load(open('build/gen/$1.out.json'))
    print(d['verification-results'])
    for m in d['times-ms']['smt']['smt-run-module-times']:
        for f in m['function-breakdown']:
            if not f['success'] or f['time']>2000: print(f['function'], f['success'], f['time'])
except Exception as e: print('no json', e)
PY
