#!/usr/bin/env python3
"""Single source of the ASSUMED specifications of std integer methods that vstd does not specify.

For every (type, method) this module gives
  * the Verus `assume_specification` text (emitted into the generated file by the `@stdspecs` directive),
  * a Rust expression evaluating the real std method and a Python function evaluating the assumed
    postcondition, used by vx/audit_std.py to compare the two on a grid of boundary values at setup.
The clauses are the semantics documented in the Rust reference / std docs.  They are trusted (listed in every
evidence file); only those a generated file actually calls matter for a given proof.
"""

import re

SIGNED = {"i8": 8, "i16": 16, "i32": 32, "i64": 64, "i128": 128}
UNSIGNED = {"u8": 8, "u16": 16, "u32": 32, "u64": 64, "u128": 128}


def rng(t):
    if t in SIGNED:
        b = SIGNED[t]
        return (-(2 ** (b - 1)), 2 ** (b - 1) - 1)
    b = UNSIGNED[t]
    return (0, 2 ** b - 1)


def sat(v, t):
    lo, hi = rng(t)
    return max(lo, min(hi, v))


def wrap(v, t):
    lo, hi = rng(t)
    span = hi - lo + 1
    return (v - lo) % span + lo


def tdiv(n, d):
    q = abs(n) // abs(d)
    return q if (n >= 0) == (d > 0) else -q


# Kani side (vx/stdspecs.py --kani): for the types of at most 64 bits the assumed clause is also PROVED against the real
# std for every input by a loop-free Kani harness.  The model works in W, the type of twice the width (sums, differences
# and products of two values cannot overflow there); A, B are the arguments widened to W, LO, HI the bounds.  Division
# clauses are checked through their defining property with a multiplication (q*b + r == a, 0 <= r < |b|), because a
# 128-bit divider is out of CBMC's reach (measured: > 45 min for each division harness when the model divided in i128).
WIDE = {"i8": "i16", "i16": "i32", "i32": "i64", "i64": "i128", "u8": "i16", "u16": "i32", "u32": "i64", "u64": "i128"}
_SAT = "(if {v} > HI {{ HI }} else if {v} < LO {{ LO }} else {{ {v} }})"
_ABS = "(if A < 0 { -A } else { A })"
_ABSB = "(if B < 0 { -B } else { B })"
_DIVPRE = "B != 0 && !(A == LO && B == -1)"
# method -> (precondition, list of statements asserting the clause; `got` is the real result widened to W)
KANI_MODEL = {
    "abs": ("A != LO", ["let got = a.abs() as W;", "assert!(got == " + _ABS + ");"]),
    "signum": ("true", ["let got = a.signum() as W;", "assert!(got == ((A > 0) as W - (A < 0) as W));"]),
    "is_negative": ("true", ["assert!(a.is_negative() == (A < 0));"]),
    "is_positive": ("true", ["assert!(a.is_positive() == (A > 0));"]),
    "unsigned_abs": ("true", ["let got = a.unsigned_abs() as W;", "assert!(got == " + _ABS + ");"]),
    "abs_diff": ("true", ["let got = a.abs_diff(b) as W;", "assert!(got == (if A < B { B - A } else { A - B }));"]),
    # Euclidean quotient: the unique q with 0 <= a - q*b < |b|  (for b > 0 this is floor(a / b) = Verus' `a / b`, for b < 0 it
    # is -floor(a / (-b)), the two cases of the assumed clause)
    "div_euclid": (_DIVPRE, ["let q = a.div_euclid(b) as W;", "let rem = A - q * B;", "assert!(0 <= rem && rem < " + _ABSB + ");"]),
    # Euclidean remainder: the unique r with 0 <= r < |b| and a - r a multiple of b (= a mod |b|, both cases of the clause);
    # the multiple is exhibited by the real div_euclid, proved above
    "rem_euclid": (_DIVPRE, ["let r = a.rem_euclid(b) as W;", "let q = a.div_euclid(b) as W;", "assert!(0 <= r && r < " + _ABSB + " && q * B + r == A);"]),
    "saturating_add": ("true", ["let got = a.saturating_add(b) as W;", "assert!(got == " + _SAT.format(v="(A + B)") + ");"]),
    "saturating_sub": ("true", ["let got = a.saturating_sub(b) as W;", "assert!(got == " + _SAT.format(v="(A - B)") + ");"]),
    "saturating_mul": ("true", ["let got = a.saturating_mul(b) as W;", "assert!(got == " + _SAT.format(v="(A * B)") + ");"]),
    # truncating quotient: the unique q with |a - q*b| < |b| and the remainder zero or of the sign of a
    "saturating_div": ("B != 0", ["let q = a.saturating_div(b) as W;", "if A == LO && B == -1 { assert!(q == HI); } else {",
                                  "    let rem = A - q * B;", "    assert!((if rem < 0 { -rem } else { rem }) < " + _ABSB + " && (rem == 0 || (rem < 0) == (A < 0)));", "}"]),
    "saturating_abs": ("true", ["let got = a.saturating_abs() as W;", "assert!(got == (if A == LO { HI } else { " + _ABS + " }));"]),
    "saturating_neg": ("true", ["let got = a.saturating_neg() as W;", "assert!(got == (if A == LO { HI } else { -A }));"]),
    "checked_neg": ("true", ["match a.checked_neg() { None => assert!(A == LO), Some(v) => assert!(A != LO && v as W == -A) }"]),
    "checked_abs": ("true", ["match a.checked_abs() { None => assert!(A == LO), Some(v) => assert!(A != LO && v as W == " + _ABS + ") }"]),
    "wrapping_neg": ("true", ["let got = a.wrapping_neg() as W;", "assert!(got == (if A == LO { LO } else { -A }));"]),
    "wrapping_abs": ("true", ["let got = a.wrapping_abs() as W;", "assert!(got == (if A == LO { LO } else { " + _ABS + " }));"]),
}
# Euclidean division at 32 and 64 bits: the uniqueness of (q, r) is multiplier-versus-divider equivalence, which CBMC's SAT
# back end did not decide in 25 minutes per harness (measured); these six stay audited-only, like the 128-bit instances.
KANI_SKIP = {("i32", "div_euclid"), ("i32", "rem_euclid"), ("i64", "div_euclid"), ("i64", "rem_euclid"), ("u32", "rem_euclid"), ("u64", "rem_euclid")}
KANI_UNSIGNED = {
    "abs_diff": KANI_MODEL["abs_diff"],
    "div_euclid": ("B != 0", ["let q = a.div_euclid(b) as W;", "let rem = A - q * B;", "assert!(0 <= rem && rem < B);"]),
    "rem_euclid": ("B != 0", ["let r = a.rem_euclid(b) as W;", "let q = a.div_euclid(b) as W;", "assert!(0 <= r && r < B && q * B + r == A);"]),
}


def kani_text():
    """Rust source of kx/harness/std_specs.rs: one harness per (type, method) for the types of at most 64 bits"""
    out = ["// GENERATED by `python3 vx/stdspecs.py --kani` -- do not edit (vx/audit_std.py checks that it is up to date).",
           "// Every assumed specification of a std integer method on a type of at most 64 bits (the text Verus assumes, see",
           "// vx/stdspecs.py) is proved here against the REAL std for every input: loop-free, full-domain symbolic arguments,",
           "// hence complete.  The model value is computed in the type of twice the width, where no intermediate can overflow;",
           "// division clauses are checked through their defining property (q*b + r == a, 0 <= r < |b|).  128-bit types stay",
           "// audited-only.", "#![allow(non_snake_case, unused_variables, unused_parens, non_camel_case_types)]", ""]
    names = []
    for e in entries():
        t, m = e.get("ty"), e.get("method")
        if t not in WIDE:
            continue
        model = (KANI_MODEL if t in SIGNED else KANI_UNSIGNED).get(m)
        if model is None or (t, m) in KANI_SKIP:
            continue
        pre, stmts = model
        two = len(e["tys"]) == 2
        hn = f"std_{t}_{m}"
        names.append(hn)
        out += ["#[kani::proof]", f"fn {hn}() {{", f"    type W = {WIDE[t]};", f"    const LO: W = {t}::MIN as W; const HI: W = {t}::MAX as W;",
                f"    let a: {t} = kani::any(); let A = a as W;",
                (f"    let b: {t} = kani::any(); let B = b as W;" if two else "    let B: W = 0;"),
                f"    kani::assume({pre});"]
        out += ["    " + st for st in stmts]
        out.append("    kani::cover!(A == HI);" + (" kani::cover!(A < 0 && B < 0);" if (two and t in SIGNED) else ""))
        out.append("}")
    for e in entries():
        m = re.match(r"<(\w+)ascore::convert::(From|TryFrom)<(\w+)>>", e["name"])
        if not m or "128" in m.group(1) + m.group(3):
            continue
        dst, kind, src = m.groups()
        hn = f"std_{dst}_{kind.lower()}_{src}"
        names.append(hn)
        if kind == "From":
            body = [f"    let got = {dst}::from(a);", "    assert!(got as i128 == a as i128);"]
        else:
            body = [f"    match {dst}::try_from(a) {{ Ok(v) => assert!(a as i128 <= {dst}::MAX as i128 && v as i128 == a as i128), Err(_) => assert!(a as i128 > {dst}::MAX as i128) }}"]
        out += ["#[kani::proof]", f"fn {hn}() {{", f"    let a: {src} = kani::any();"] + body + [f"    kani::cover!(a == {src}::MAX);", "}"]
    return "\n".join(out) + "\n", names


def entries():
    """yield dicts: name (normalised target), verus (text), tys, call (rust template), pre (py), exp (py), out ('int'|'bool'|'opt')"""
    E = []

    def add(t, m, args, ret, requires, ensures, call, pre, exp, argtys=None):
        params = ", ".join(f"{n}: {ty}" for n, ty in args)
        req = f"\n    requires {requires}," if requires else ""
        E.append({
            "ty": t, "method": m,
            "name": f"{t}::{m}",
            "verus": f"pub assume_specification[ {t}::{m} ]({params}) -> (r: {ret}){req}\n    ensures {ensures};",
            "tys": argtys or tuple(ty for _, ty in args), "call": call, "pre": pre, "exp": exp,
        })

    for t in SIGNED:
        lo, hi = rng(t)
        u = "u" + t[1:]
        MINT, MAXT = f"{t}::MIN", f"{t}::MAX"
        add(t, "abs", [("a", t)], t, f"a != {MINT}", "r == (if a < 0 { -(a as int) } else { a as int })",
            "{0}.abs()", lambda a, lo=lo: a != lo, lambda a: abs(a))
        add(t, "signum", [("a", t)], t, "", "r == (if a > 0 { 1int } else if a < 0 { -1int } else { 0int })",
            "{0}.signum()", lambda a: True, lambda a: (a > 0) - (a < 0))
        add(t, "is_negative", [("a", t)], "bool", "", "r == (a < 0)", "({0}.is_negative() as i128)", lambda a: True, lambda a: int(a < 0))
        add(t, "is_positive", [("a", t)], "bool", "", "r == (a > 0)", "({0}.is_positive() as i128)", lambda a: True, lambda a: int(a > 0))
        add(t, "unsigned_abs", [("a", t)], u, "", "r == (if a < 0 { -(a as int) } else { a as int })",
            "{0}.unsigned_abs()", lambda a: True, lambda a: abs(a))
        add(t, "abs_diff", [("a", t), ("b", t)], u, "", "r == (if a < b { b - a } else { a - b })",
            "{0}.abs_diff({1})", lambda a, b: True, lambda a, b: abs(a - b))
        add(t, "div_euclid", [("a", t), ("b", t)], t, f"b != 0, !(a == {MINT} && b == -1)",
            "b > 0 ==> r == a as int / b as int, b < 0 ==> r == -(a as int / (-(b as int)))",
            "{0}.div_euclid({1})", lambda a, b, lo=lo: b != 0 and not (a == lo and b == -1), lambda a, b: (a // b) if b > 0 else -(a // (-b)))
        add(t, "rem_euclid", [("a", t), ("b", t)], t, f"b != 0, !(a == {MINT} && b == -1)",
            "b > 0 ==> r == a as int % b as int, b < 0 ==> r == a as int % (-(b as int))",
            "{0}.rem_euclid({1})", lambda a, b, lo=lo: b != 0 and not (a == lo and b == -1), lambda a, b: a % abs(b))
        for op, sym, f in (("saturating_add", "+", lambda a, b: a + b), ("saturating_sub", "-", lambda a, b: a - b), ("saturating_mul", "*", lambda a, b: a * b)):
            add(t, op, [("a", t), ("b", t)], t, "",
                f"r == (if a {sym} b > {MAXT} {{ {MAXT} as int }} else if a {sym} b < {MINT} {{ {MINT} as int }} else {{ a {sym} b }})",
                "{0}." + op + "({1})", lambda a, b: True, lambda a, b, f=f, t=t: sat(f(a, b), t))
        add(t, "saturating_div", [("a", t), ("b", t)], t, "b != 0",
            f"r == (if a == {MINT} && b == -1 {{ {MAXT} as int }} else {{ trunc_div(a as int, b as int) }})",
            "{0}.saturating_div({1})", lambda a, b: b != 0, lambda a, b, lo=lo, hi=hi: hi if (a == lo and b == -1) else tdiv(a, b))
        add(t, "saturating_abs", [("a", t)], t, "", f"r == (if a == {MINT} {{ {MAXT} as int }} else if a < 0 {{ -(a as int) }} else {{ a as int }})",
            "{0}.saturating_abs()", lambda a: True, lambda a, lo=lo, hi=hi: hi if a == lo else abs(a))
        add(t, "saturating_neg", [("a", t)], t, "", f"r == (if a == {MINT} {{ {MAXT} as int }} else {{ -(a as int) }})",
            "{0}.saturating_neg()", lambda a: True, lambda a, lo=lo, hi=hi: hi if a == lo else -a)
        add(t, "checked_neg", [("a", t)], f"Option<{t}>", "", f"a == {MINT} ==> r is None, a != {MINT} ==> r == Some((-(a as int)) as {t})",
            "{0}.checked_neg().map(|v| v as i128).unwrap_or(i128::MAX)", lambda a: True, lambda a, lo=lo: (2 ** 127 - 1) if a == lo else -a)
        add(t, "checked_abs", [("a", t)], f"Option<{t}>", "", f"a == {MINT} ==> r is None, a != {MINT} ==> r == Some((if a < 0 {{ -(a as int) }} else {{ a as int }}) as {t})",
            "{0}.checked_abs().map(|v| v as i128).unwrap_or(i128::MAX)", lambda a: True, lambda a, lo=lo: (2 ** 127 - 1) if a == lo else abs(a))
        add(t, "wrapping_neg", [("a", t)], t, "", f"r == (if a == {MINT} {{ {MINT} as int }} else {{ -(a as int) }})",
            "{0}.wrapping_neg()", lambda a: True, lambda a, t=t: wrap(-a, t))
        add(t, "wrapping_abs", [("a", t)], t, "", f"r == (if a == {MINT} {{ {MINT} as int }} else if a < 0 {{ -(a as int) }} else {{ a as int }})",
            "{0}.wrapping_abs()", lambda a: True, lambda a, t=t: wrap(abs(a), t))
    for t in UNSIGNED:
        add(t, "abs_diff", [("a", t), ("b", t)], t, "", "r == (if a < b { b - a } else { a - b })",
            "{0}.abs_diff({1})", lambda a, b: True, lambda a, b: abs(a - b))
        add(t, "div_euclid", [("a", t), ("b", t)], t, "b != 0", "r == a / b", "{0}.div_euclid({1})", lambda a, b: b != 0, lambda a, b: a // b)
        add(t, "rem_euclid", [("a", t), ("b", t)], t, "b != 0", "r == a % b", "{0}.rem_euclid({1})", lambda a, b: b != 0, lambda a, b: a % b)
    # widening conversions between signedness classes (vstd only has same-class From impls)
    conv = [("u8", "i16"), ("u8", "i32"), ("u8", "i64"), ("u8", "i128"), ("u16", "i32"), ("u16", "i64"), ("u16", "i128"),
            ("u32", "i64"), ("u32", "i128"), ("u64", "i128")]
    for src, dst in conv:
        E.append({
            "name": f"<{dst}ascore::convert::From<{src}>>::from",
            "verus": f"pub assume_specification[ <{dst} as core::convert::From<{src}>>::from ](a: {src}) -> (r: {dst})\n    ensures r == a as {dst};",
            "tys": (src,), "call": dst + "::from({0})", "pre": lambda a: True, "exp": lambda a: a,
        })
    # checked conversions unsigned -> signed of the same width (vstd specifies only the other directions)
    for src, dst in [("u8", "i8"), ("u16", "i16"), ("u32", "i32"), ("u64", "i64"), ("u128", "i128")]:
        hi = rng(dst)[1]
        E.append({
            "name": f"<{dst}ascore::convert::TryFrom<{src}>>::try_from",
            "verus": f"pub assume_specification[ <{dst} as core::convert::TryFrom<{src}>>::try_from ](a: {src}) -> (r: Result<{dst}, <{dst} as core::convert::TryFrom<{src}>>::Error>)\n    ensures a <= {dst}::MAX ==> (r is Ok && r->Ok_0 == a as {dst}), a > {dst}::MAX ==> r is Err;",
            "tys": (src,), "call": dst + "::try_from({0}).map(|v| v as i128).unwrap_or(i128::MAX)", "pre": lambda a: True,
            "exp": lambda a, hi=hi: a if a <= hi else 2 ** 127 - 1,
        })
    # Result::unwrap_or, std::time::Duration::new / as_nanos, f64::is_finite
    E.append({
        "name": "core::result::Result::<T,E>::unwrap_or",
        "verus": "pub assume_specification<T, E>[ core::result::Result::<T, E>::unwrap_or ](r: Result<T, E>, d: T) -> (o: T)\n    ensures r is Ok ==> o == r->Ok_0, r is Err ==> o == d;",
        "tys": ("i64", "i64"), "call": "(Ok::<i64, ()>({0}).unwrap_or({1}) as i128 * 3 + Err::<i64, ()>(()).unwrap_or({1}) as i128)", "pre": lambda a, b: True,
        "exp": lambda a, b: 3 * a + b,
    })
    E.append({
        "name": "core::time::Duration::new",
        "verus": "pub assume_specification[ core::time::Duration::new ](secs: u64, nanos: u32) -> (r: core::time::Duration)\n    requires nanos < 1_000_000_000,\n    ensures std_nanos(r) == secs as nat * 1_000_000_000 + nanos as nat;",
        "tys": ("u64", "u32"), "call": "core::time::Duration::new({0}, {1}).as_nanos()", "pre": lambda a, b: b < 10 ** 9, "exp": lambda a, b: a * 10 ** 9 + b,
    })
    E.append({
        "name": "core::time::Duration::as_nanos",
        "verus": "pub assume_specification[ core::time::Duration::as_nanos ](d: &core::time::Duration) -> (r: u128)\n    ensures r == std_nanos(*d), r <= 18_446_744_073_709_551_615u128 * 1_000_000_000 + 999_999_999;",
        "tys": ("u64", "u32"), "call": "((core::time::Duration::new({0}, {1}).as_nanos() <= 18_446_744_073_709_551_615u128 * 1_000_000_000 + 999_999_999) as i128)", "pre": lambda a, b: b < 10 ** 9, "exp": lambda a, b: 1,
    })
    E.append({
        "name": "f64::is_finite",
        "verus": "pub assume_specification[ f64::is_finite ](x: f64) -> (r: bool)\n    ensures r == x.is_finite_spec();",
        "tys": ("u64",), "call": "(f64::from_bits({0}).is_finite() as i128)", "pre": lambda a: True, "exp": lambda a: int(((a >> 52) & 0x7FF) != 0x7FF),
    })
    E.append({
        "name": "<OrderingasPartialEq>::eq",
        "verus": "pub assume_specification[ <Ordering as PartialEq>::eq ](a: &Ordering, b: &Ordering) -> (r: bool)\n    ensures r == (*a == *b);",
        "tys": ("ord", "ord"), "call": "(({0} == {1}) as i128)", "pre": lambda a, b: True, "exp": lambda a, b: int(a == b),
    })
    E.append({
        "name": "Option::<&'aT>::copied",
        "verus": "pub assume_specification<'a, T: Copy>[ Option::<&'a T>::copied ](o: Option<&'a T>) -> (r: Option<T>)\n    ensures o is None ==> r is None, o is Some ==> r == Some(*o->Some_0);",
        "tys": ("i64",), "call": "(Some(&{0}).copied().unwrap() as i128 + None::<&i64>.copied().map(|v| v as i128).unwrap_or(0))", "pre": lambda a: True, "exp": lambda a: a,
    })
    return E


def verus_text():
    out = ["// ---- assumed specifications of std methods without a vstd specification (generated by vx/stdspecs.py;",
           "// trusted, audited against the real std at setup by vx/audit_std.py) --------------------------------------"]
    for e in entries():
        out.append(e["verus"])
    return "\n".join(out)


if __name__ == "__main__":
    import sys
    if "--kani" in sys.argv:
        sys.stdout.write(kani_text()[0])
    elif "--kani-names" in sys.argv:
        print("\n".join(kani_text()[1]))
    else:
        print(verus_text())
