#!/usr/bin/env python3
"""Single source of the ASSUMED specifications of std integer methods that vstd does not specify.

For every (type, method) this module gives
  * the Verus `assume_specification` text (emitted into the generated file by the `@stdspecs` directive),
  * a Rust expression evaluating the real std method and a Python function evaluating the assumed
    postcondition, used by vx/audit_std.py to compare the two on a grid of boundary values at setup.
The clauses are the semantics documented in the Rust reference / std docs.  They are trusted (listed in every
evidence file); only those a generated file actually calls matter for a given proof.
"""

SIGNED = {"i8": 8, "i16": 16, "i32": 32, "i64": 64, "i128": 128}
UNSIGNED = {"u8": 8, "u16": 16, "u32": 32, "u64": 64, "u128": 128}


def rng(t):
    if t in SIGNED:
        b = SIGNED[t]
        return (-(2 ** (b - 1)), 2 ** (b - 1) - 1)
    b = UNSIGNED[t]
    return (0, 2 ** b - 1)


def sat(v, t):
    lo, hi = rng(t)
    return max(lo, min(hi, v))


def wrap(v, t):
    lo, hi = rng(t)
    span = hi - lo + 1
    return (v - lo) % span + lo


def tdiv(n, d):
    q = abs(n) // abs(d)
    return q if (n >= 0) == (d > 0) else -q


def entries():
    """yield dicts: name (normalised target), verus (text), tys, call (rust template), pre (py), exp (py), out ('int'|'bool'|'opt')"""
    E = []

    def add(t, m, args, ret, requires, ensures, call, pre, exp, argtys=None):
        params = ", ".join(f"{n}: {ty}" for n, ty in args)
        req = f"\n    requires {requires}," if requires else ""
        E.append({
            "name": f"{t}::{m}",
            "verus": f"pub assume_specification[ {t}::{m} ]({params}) -> (r: {ret}){req}\n    ensures {ensures};",
            "tys": argtys or tuple(ty for _, ty in args), "call": call, "pre": pre, "exp": exp,
        })

    for t in SIGNED:
        lo, hi = rng(t)
        u = "u" + t[1:]
        MINT, MAXT = f"{t}::MIN", f"{t}::MAX"
        add(t, "abs", [("a", t)], t, f"a != {MINT}", "r == (if a < 0 { -(a as int) } else { a as int })",
            "{0}.abs()", lambda a, lo=lo: a != lo, lambda a: abs(a))
        add(t, "signum", [("a", t)], t, "", "r == (if a > 0 { 1int } else if a < 0 { -1int } else { 0int })",
            "{0}.signum()", lambda a: True, lambda a: (a > 0) - (a < 0))
        add(t, "is_negative", [("a", t)], "bool", "", "r == (a < 0)", "({0}.is_negative() as i128)", lambda a: True, lambda a: int(a < 0))
        add(t, "is_positive", [("a", t)], "bool", "", "r == (a > 0)", "({0}.is_positive() as i128)", lambda a: True, lambda a: int(a > 0))
        add(t, "unsigned_abs", [("a", t)], u, "", "r == (if a < 0 { -(a as int) } else { a as int })",
            "{0}.unsigned_abs()", lambda a: True, lambda a: abs(a))
        add(t, "abs_diff", [("a", t), ("b", t)], u, "", "r == (if a < b { b - a } else { a - b })",
            "{0}.abs_diff({1})", lambda a, b: True, lambda a, b: abs(a - b))
        add(t, "div_euclid", [("a", t), ("b", t)], t, f"b != 0, !(a == {MINT} && b == -1)",
            "b > 0 ==> r == a as int / b as int, b < 0 ==> r == -(a as int / (-(b as int)))",
            "{0}.div_euclid({1})", lambda a, b, lo=lo: b != 0 and not (a == lo and b == -1), lambda a, b: (a // b) if b > 0 else -(a // (-b)))
        add(t, "rem_euclid", [("a", t), ("b", t)], t, f"b != 0, !(a == {MINT} && b == -1)",
            "b > 0 ==> r == a as int % b as int, b < 0 ==> r == a as int % (-(b as int))",
            "{0}.rem_euclid({1})", lambda a, b, lo=lo: b != 0 and not (a == lo and b == -1), lambda a, b: a % abs(b))
        for op, sym, f in (("saturating_add", "+", lambda a, b: a + b), ("saturating_sub", "-", lambda a, b: a - b), ("saturating_mul", "*", lambda a, b: a * b)):
            add(t, op, [("a", t), ("b", t)], t, "",
                f"r == (if a {sym} b > {MAXT} {{ {MAXT} as int }} else if a {sym} b < {MINT} {{ {MINT} as int }} else {{ a {sym} b }})",
                "{0}." + op + "({1})", lambda a, b: True, lambda a, b, f=f, t=t: sat(f(a, b), t))
        add(t, "saturating_div", [("a", t), ("b", t)], t, "b != 0",
            f"r == (if a == {MINT} && b == -1 {{ {MAXT} as int }} else {{ trunc_div(a as int, b as int) }})",
            "{0}.saturating_div({1})", lambda a, b: b != 0, lambda a, b, lo=lo, hi=hi: hi if (a == lo and b == -1) else tdiv(a, b))
        add(t, "saturating_abs", [("a", t)], t, "", f"r == (if a == {MINT} {{ {MAXT} as int }} else if a < 0 {{ -(a as int) }} else {{ a as int }})",
            "{0}.saturating_abs()", lambda a: True, lambda a, lo=lo, hi=hi: hi if a == lo else abs(a))
        add(t, "saturating_neg", [("a", t)], t, "", f"r == (if a == {MINT} {{ {MAXT} as int }} else {{ -(a as int) }})",
            "{0}.saturating_neg()", lambda a: True, lambda a, lo=lo, hi=hi: hi if a == lo else -a)
        add(t, "checked_neg", [("a", t)], f"Option<{t}>", "", f"a == {MINT} ==> r is None, a != {MINT} ==> r == Some((-(a as int)) as {t})",
            "{0}.checked_neg().map(|v| v as i128).unwrap_or(i128::MAX)", lambda a: True, lambda a, lo=lo: (2 ** 127 - 1) if a == lo else -a)
        add(t, "checked_abs", [("a", t)], f"Option<{t}>", "", f"a == {MINT} ==> r is None, a != {MINT} ==> r == Some((if a < 0 {{ -(a as int) }} else {{ a as int }}) as {t})",
            "{0}.checked_abs().map(|v| v as i128).unwrap_or(i128::MAX)", lambda a: True, lambda a, lo=lo: (2 ** 127 - 1) if a == lo else abs(a))
        add(t, "wrapping_neg", [("a", t)], t, "", f"r == (if a == {MINT} {{ {MINT} as int }} else {{ -(a as int) }})",
            "{0}.wrapping_neg()", lambda a: True, lambda a, t=t: wrap(-a, t))
        add(t, "wrapping_abs", [("a", t)], t, "", f"r == (if a == {MINT} {{ {MINT} as int }} else if a < 0 {{ -(a as int) }} else {{ a as int }})",
            "{0}.wrapping_abs()", lambda a: True, lambda a, t=t: wrap(abs(a), t))
    for t in UNSIGNED:
        add(t, "abs_diff", [("a", t), ("b", t)], t, "", "r == (if a < b { b - a } else { a - b })",
            "{0}.abs_diff({1})", lambda a, b: True, lambda a, b: abs(a - b))
        add(t, "div_euclid", [("a", t), ("b", t)], t, "b != 0", "r == a / b", "{0}.div_euclid({1})", lambda a, b: b != 0, lambda a, b: a // b)
        add(t, "rem_euclid", [("a", t), ("b", t)], t, "b != 0", "r == a % b", "{0}.rem_euclid({1})", lambda a, b: b != 0, lambda a, b: a % b)
    # widening conversions between signedness classes (vstd only has same-class From impls)
    conv = [("u8", "i16"), ("u8", "i32"), ("u8", "i64"), ("u8", "i128"), ("u16", "i32"), ("u16", "i64"), ("u16", "i128"),
            ("u32", "i64"), ("u32", "i128"), ("u64", "i128")]
    for src, dst in conv:
        E.append({
            "name": f"<{dst}ascore::convert::From<{src}>>::from",
            "verus": f"pub assume_specification[ <{dst} as core::convert::From<{src}>>::from ](a: {src}) -> (r: {dst})\n    ensures r == a as {dst};",
            "tys": (src,), "call": dst + "::from({0})", "pre": lambda a: True, "exp": lambda a: a,
        })
    # checked conversions unsigned -> signed of the same width (vstd specifies only the other directions)
    for src, dst in [("u8", "i8"), ("u16", "i16"), ("u32", "i32"), ("u64", "i64"), ("u128", "i128")]:
        hi = rng(dst)[1]
        E.append({
            "name": f"<{dst}ascore::convert::TryFrom<{src}>>::try_from",
            "verus": f"pub assume_specification[ <{dst} as core::convert::TryFrom<{src}>>::try_from ](a: {src}) -> (r: Result<{dst}, <{dst} as core::convert::TryFrom<{src}>>::Error>)\n    ensures a <= {dst}::MAX ==> (r is Ok && r->Ok_0 == a as {dst}), a > {dst}::MAX ==> r is Err;",
            "tys": (src,), "call": dst + "::try_from({0}).map(|v| v as i128).unwrap_or(i128::MAX)", "pre": lambda a: True,
            "exp": lambda a, hi=hi: a if a <= hi else 2 ** 127 - 1,
        })
    # Result::unwrap_or, std::time::Duration::new / as_nanos, f64::is_finite
    E.append({
        "name": "core::result::Result::<T,E>::unwrap_or",
        "verus": "pub assume_specification<T, E>[ core::result::Result::<T, E>::unwrap_or ](r: Result<T, E>, d: T) -> (o: T)\n    ensures r is Ok ==> o == r->Ok_0, r is Err ==> o == d;",
        "tys": ("i64", "i64"), "call": "(Ok::<i64, ()>({0}).unwrap_or({1}) as i128 * 3 + Err::<i64, ()>(()).unwrap_or({1}) as i128)", "pre": lambda a, b: True,
        "exp": lambda a, b: 3 * a + b,
    })
    E.append({
        "name": "core::time::Duration::new",
        "verus": "pub assume_specification[ core::time::Duration::new ](secs: u64, nanos: u32) -> (r: core::time::Duration)\n    requires nanos < 1_000_000_000,\n    ensures std_nanos(r) == secs as nat * 1_000_000_000 + nanos as nat;",
        "tys": ("u64", "u32"), "call": "core::time::Duration::new({0}, {1}).as_nanos()", "pre": lambda a, b: b < 10 ** 9, "exp": lambda a, b: a * 10 ** 9 + b,
    })
    E.append({
        "name": "core::time::Duration::as_nanos",
        "verus": "pub assume_specification[ core::time::Duration::as_nanos ](d: &core::time::Duration) -> (r: u128)\n    ensures r == std_nanos(*d), r <= 18_446_744_073_709_551_615u128 * 1_000_000_000 + 999_999_999;",
        "tys": ("u64", "u32"), "call": "((core::time::Duration::new({0}, {1}).as_nanos() <= 18_446_744_073_709_551_615u128 * 1_000_000_000 + 999_999_999) as i128)", "pre": lambda a, b: b < 10 ** 9, "exp": lambda a, b: 1,
    })
    E.append({
        "name": "f64::is_finite",
        "verus": "pub assume_specification[ f64::is_finite ](x: f64) -> (r: bool)\n    ensures r == x.is_finite_spec();",
        "tys": ("u64",), "call": "(f64::from_bits({0}).is_finite() as i128)", "pre": lambda a: True, "exp": lambda a: int(((a >> 52) & 0x7FF) != 0x7FF),
    })
    E.append({
        "name": "<OrderingasPartialEq>::eq",
        "verus": "pub assume_specification[ <Ordering as PartialEq>::eq ](a: &Ordering, b: &Ordering) -> (r: bool)\n    ensures r == (*a == *b);",
        "tys": ("ord", "ord"), "call": "(({0} == {1}) as i128)", "pre": lambda a, b: True, "exp": lambda a, b: int(a == b),
    })
    E.append({
        "name": "Option::<&'aT>::copied",
        "verus": "pub assume_specification<'a, T: Copy>[ Option::<&'a T>::copied ](o: Option<&'a T>) -> (r: Option<T>)\n    ensures o is None ==> r is None, o is Some ==> r == Some(*o->Some_0);",
        "tys": ("i64",), "call": "(Some(&{0}).copied().unwrap() as i128 + None::<&i64>.copied().map(|v| v as i128).unwrap_or(0))", "pre": lambda a: True, "exp": lambda a: a,
    })
    return E


def verus_text():
    out = ["// ---- assumed specifications of std methods without a vstd specification (generated by vx/stdspecs.py;",
           "// trusted, audited against the real std at setup by vx/audit_std.py) --------------------------------------"]
    for e in entries():
        out.append(e["verus"])
    return "\n".join(out)


if __name__ == "__main__":
    print(verus_text())
