#!/usr/bin/env python3
"""vx/driver.py -- run Verus on a generated cluster file and turn its output into a per-obligation ledger.

Verdict classes for a cluster run:
  ok          Verus ran to completion; every obligation has a verdict (verified / failed with a verification error)
  undecided   not a verdict: generator error (anchor lost), rustc/VIR error in generated text, unsupported construct,
              rlimit / timeout, tool crash.  Callers exit 2 on this and never print VIOLATION.
"""
import hashlib
import json
import os
import re
import subprocess
import sys
import time

HERE = os.path.dirname(os.path.abspath(__file__))
VERIF = os.path.dirname(HERE)
sys.path.insert(0, HERE)
import gen  # noqa: E402

BUILD = os.path.join(VERIF, "build")
CACHE = os.path.join(BUILD, "cache")

# messages of genuine verification failures (anything else at level=error is a compile-type error => undecided)
VERIF_MSG = [
    "postcondition not satisfied",
    "precondition not satisfied",
    "assertion failed",
    "possible arithmetic underflow/overflow",
    "possible division by zero",
    "invariant not satisfied at end of loop body",
    "invariant not satisfied before loop",
    "loop invariant not satisfied",
    "decreases not satisfied",
    "possible bit shift underflow/overflow",
    "could not prove termination",
    "unable to prove assertion",
    "index out of bounds",
    "possible out of bounds",
    "cannot show invariant holds",
    "recursive call: decreases not satisfied",
    "failed this postcondition",
    "call to function may panic",
    "constructed value may fail to meet its declared type invariant",
    "value may be out of range of the target type",
    "unreachable",
]
UNDECIDED_MSG = ["Resource limit (rlimit) exceeded", "resource limit", "timed out", "the solver returned unknown"]


def verus_version():
    try:
        out = subprocess.run(["verus", "--version"], capture_output=True, text=True, timeout=60).stdout
        m = re.search(r"Version:\s*(\S+)", out)
        return m.group(1) if m else out.strip()[:60]
    except Exception as e:  # pragma: no cover
        return f"unknown ({e})"


_VV = None


def vv():
    global _VV
    if _VV is None:
        _VV = verus_version()
    return _VV


def run_cluster(cluster, rlimit=None, seed=None, use_cache=True, extra_tag="", timeout=1500):
    """Generate + verify cluster `<name>.vrs`.  Returns dict (see bottom)."""
    os.makedirs(CACHE, exist_ok=True)
    os.makedirs(os.path.join(BUILD, "gen"), exist_ok=True)
    t0 = time.time()
    out_path = os.path.join(BUILD, "gen", cluster + ".rs")
    try:
        gen.SourceIndex._cache.clear()
        text, meta = gen.generate(cluster + ".vrs", out_path)
    except gen.GenError as e:
        return {"cluster": cluster, "status": "undecided", "reason": f"generator: {e}", "obligations": [], "failures": [],
                "wall_s": time.time() - t0, "cached": False, "assumptions": [], "items": []}
    flags = ["--output-json", "--time", "--error-format=json", "--multiple-errors", "8"]
    if rlimit:
        flags += ["--rlimit", str(rlimit)]
    if seed is not None:
        flags += ["--smt-option", f"smt.random_seed={seed}"]
    key = hashlib.sha256((meta["sha256"] + vv() + " ".join(flags) + extra_tag).encode()).hexdigest()[:32]
    cpath = os.path.join(CACHE, f"{cluster}-{key}.json")
    raw = None
    if use_cache and os.path.exists(cpath):
        try:
            raw = json.load(open(cpath))
            raw["cached"] = True
        except Exception:
            raw = None
    if raw is None:
        cmd = ["verus", out_path] + flags
        t1 = time.time()
        try:
            p = subprocess.run(cmd, capture_output=True, text=True, timeout=timeout, cwd=BUILD)
            raw = {"stdout": p.stdout, "stderr": p.stderr, "returncode": p.returncode, "cmd": " ".join(cmd),
                   "verus_wall_s": time.time() - t1, "cached": False}
        except subprocess.TimeoutExpired:
            raw = {"stdout": "", "stderr": "", "returncode": -9, "cmd": " ".join(cmd), "timeout": True,
                   "verus_wall_s": time.time() - t1, "cached": False}
        tmp = f"{cpath}.{os.getpid()}.tmp"
        with open(tmp, "w") as fh:
            json.dump(raw, fh)
        os.replace(tmp, cpath)
    res = interpret(cluster, meta, raw)
    res["wall_s"] = time.time() - t0
    res["gen_file"] = out_path
    res["gen_sha256"] = meta["sha256"]
    res["verus_cmd"] = raw.get("cmd")
    res["verus_wall_s"] = raw.get("verus_wall_s")
    res["cached"] = raw.get("cached", False)
    return res


def obligation_at(meta, line):
    """obligation (or item) whose generated lines contain `line`"""
    best = None
    for o in meta["obligations"]:
        if "gen_lines" in o and o["gen_lines"][0] <= line <= o["gen_lines"][1]:
            return o
    # verbatim lemma / fn: the last one starting at or before the line
    for o in meta["obligations"]:
        if "gen_line" in o and o["gen_line"] <= line:
            if best is None or o["gen_line"] > best["gen_line"]:
                best = o
    return best


def interpret(cluster, meta, raw):
    obligations = meta["obligations"]
    res = {"cluster": cluster, "status": "ok", "reason": "", "failures": [], "obligations": obligations,
           "assumptions": meta["assumptions"], "items": meta["items"], "spec_files": meta["spec_files"],
           "breakdown": [], "smt_ms": None, "verified_count": None}
    if raw.get("timeout"):
        res.update(status="undecided", reason="verus timed out")
        return res
    vjson = None
    try:
        vjson = json.loads(raw["stdout"]) if raw["stdout"].strip() else None
    except Exception:
        vjson = None
    diags = []
    for ln in raw["stderr"].splitlines():
        ln = ln.strip()
        if ln.startswith("{"):
            try:
                diags.append(json.loads(ln))
            except Exception:
                pass
    gen_name = os.path.basename(os.path.join(BUILD, "gen", cluster + ".rs"))
    origin = meta["origin"]
    compile_errors = []
    undecided = []
    failures = []
    for d in diags:
        if d.get("level") != "error":
            continue
        msg = d.get("message", "")
        if msg.startswith("aborting due to"):
            continue
        if any(u.lower() in msg.lower() for u in UNDECIDED_MSG):
            undecided.append(msg)
            continue
        spans = [s for s in d.get("spans", []) if s.get("file_name", "").endswith(gen_name)]
        is_verif = d.get("code") is None and any(v in msg for v in VERIF_MSG)
        if not is_verif:
            compile_errors.append((msg, spans[0]["line_start"] if spans else None, d.get("rendered", "")[:1500]))
            continue
        # locate: primary span in our file if any, else any span in our file
        prim = [s for s in spans if s.get("is_primary")] or spans
        if not prim:
            compile_errors.append((msg + " (no span in generated file)", None, d.get("rendered", "")[:1500]))
            continue
        # obligation = the one containing ANY of the spans (prefer non-verbatim fn ranges)
        ob = None
        for s in spans:
            o = obligation_at(meta, s["line_start"])
            if o is not None and ("gen_lines" in o):
                ob = o
                break
        if ob is None:
            ob = obligation_at(meta, prim[0]["line_start"])
        # the failed clause: for post/pre-conditions the span labelled "failed this postcondition"/"failed precondition"
        clause_span = None
        for s in d.get("spans", []):
            lab = (s.get("label") or "")
            if "failed this postcondition" in lab or "failed precondition" in lab or "failed this" in lab:
                clause_span = s
        if clause_span is None:
            clause_span = prim[0]
        clause_text = " ".join(t["text"][t["highlight_start"] - 1:t["highlight_end"] - 1] if len(clause_span.get("text", [])) == 1 else t["text"].strip()
                               for t in clause_span.get("text", []))
        clause_text = " ".join(clause_text.split())
        if not clause_span.get("file_name", "").endswith(gen_name):
            clause_text = f"operator contract of vstd ({os.path.basename(clause_span.get('file_name',''))}:{clause_span.get('line_start')}): result == <op>_spec(operands) as given by the *SpecImpl of this impl"
        at_span = prim[0]
        for s in spans:
            lab = (s.get("label") or "")
            if "at this exit" in lab or "at the end of the function body" in lab:
                at_span = s
        def org(line):
            if 1 <= line <= len(origin):
                o = origin[line - 1]
                if o.get("kind") in ("src", "spec") and o.get("file"):
                    return f"{o['file']}:{o['line']}"
            return None
        # a failure of the PROOF SCRIPT rather than of the contract: a loop invariant or an `assert` hint spliced from the spec
        # file (or the precondition of a lemma called inside such a hint) does not hold for the code as it is now.  The
        # contract clause itself was not refuted; `check` reports such an obligation as violated only with a failing input.
        def okind(line):
            return origin[line - 1].get("kind") if 1 <= line <= len(origin) else None
        in_gen = clause_span.get("file_name", "").endswith(gen_name)
        script = (("invariant not satisfied" in msg or "assertion failed" in msg) and in_gen and okind(clause_span["line_start"]) == "spec") \
            or ("precondition not satisfied" in msg and okind(prim[0]["line_start"]) == "spec")
        failures.append({
            "script": bool(script),
            "obligation": ob["label"] if ob and "label" in ob else (ob["name"] if ob else "?"),
            "name": ob["name"] if ob else "?",
            "kind": msg,
            "clause": clause_text[:600],
            "clause_file": clause_span.get("file_name"),
            "clause_origin": org(clause_span["line_start"]) if clause_span.get("file_name", "").endswith(gen_name) else f"vstd:{clause_span.get('file_name')}:{clause_span.get('line_start')}",
            "at_origin": org(at_span["line_start"]),
            "gen_line": prim[0]["line_start"],
            "rendered": d.get("rendered", "")[:3000],
            "props": ob.get("props", []) if ob else [],
            "sufficient": bool(ob.get("sufficient")) if ob else False,
        })
    if compile_errors:
        msg, line, rendered = compile_errors[0]
        where = ""
        if line and 1 <= line <= len(origin):
            o = origin[line - 1]
            where = f" at generated line {line} (from {o.get('file')}:{o.get('line')})" if o.get("file") else f" at generated line {line}"
        res.update(status="undecided", reason=f"compile-type error in generated text (unsupported construct or type error): {msg[:300]}{where}", detail=rendered)
        res["failures"] = failures
        return res
    if vjson is not None:
        try:
            res["smt_ms"] = vjson["times-ms"]["smt"]["total"]
            res["verified_count"] = vjson["verification-results"]["verified"]
            res["error_count"] = vjson["verification-results"]["errors"]
            for m in vjson["times-ms"]["smt"]["smt-run-module-times"]:
                for f in m.get("function-breakdown", []):
                    res["breakdown"].append({"function": f["function"], "mode": f.get("mode:"), "us": f["time-micros"],
                                             "rlimit": f["rlimit"], "success": f["success"]})
            if vjson["verification-results"].get("encountered-vir-error"):
                compile_errors.append(("VIR error", None, ""))
        except Exception as e:
            res.update(status="undecided", reason=f"cannot read verus json: {e}")
            return res
    if compile_errors:
        msg, line, rendered = compile_errors[0]
        where = ""
        if line and 1 <= line <= len(origin):
            o = origin[line - 1]
            where = f" at generated line {line} (from {o.get('file')}:{o.get('line')})" if o.get("file") else f" at generated line {line}"
        res.update(status="undecided", reason=f"compile-type error in generated text: {msg}{where}", detail=rendered)
        res["failures"] = failures
        return res
    if undecided:
        res.update(status="undecided", reason="; ".join(sorted(set(undecided))))
        res["failures"] = failures
        return res
    if vjson is None:
        res.update(status="undecided", reason=f"verus produced no json (rc={raw.get('returncode')}): {raw.get('stderr','')[-800:]}")
        return res
    res["failures"] = failures
    # ledger: every obligation must show up in the breakdown (by last path segment) as many times as it is declared
    failed_names = {}
    for f in failures:
        failed_names.setdefault(f["name"], 0)
    from collections import Counter
    want = Counter(o["name"] for o in obligations)
    have_ok = Counter(b["function"].split("::")[-1] for b in res["breakdown"] if b["success"])
    have_any = Counter(b["function"].split("::")[-1] for b in res["breakdown"])
    missing = [n for n, k in want.items() if have_any.get(n, 0) < k and n not in ("?",)]
    # exec consts verified as `spec`-mode entries also appear; trait default methods appear under the trait name
    if missing:
        res.update(status="undecided", reason=f"obligation set smaller than expected: no Verus query for {missing[:8]}")
        return res
    # every failure flagged by success=false must have a diagnostic we attributed
    n_failed_fn = sum(1 for b in res["breakdown"] if not b["success"])
    if n_failed_fn and not failures:
        res.update(status="undecided", reason="verus reports failed functions but no attributable diagnostic")
        return res
    if vjson["verification-results"].get("errors", 0) > 0 and not failures:
        res.update(status="undecided", reason="verus reports errors but no attributable diagnostic")
    return res


if __name__ == "__main__":
    r = run_cluster(sys.argv[1], use_cache="--no-cache" not in sys.argv)
    print(json.dumps({k: v for k, v in r.items() if k not in ("obligations", "items", "breakdown", "assumptions")}, indent=1)[:6000])
    print("obligations:", len(r["obligations"]), "verified:", r.get("verified_count"), "status:", r["status"], r["reason"])
