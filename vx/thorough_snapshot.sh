#!/bin/bash
# Runs `./check all --tier thorough` against snapshots of /verif and /repo (so that work can go on in both meanwhile);
# evidence goes to the snapshot's build/thorough-evidence and is discarded; only the verdicts are of interest.
S=${VERIF_SNAP:-/tmp/vsnapT}; R=${REPO_SNAP:-/tmp/rsnapT}
rm -rf $S $R
rsync -a --exclude build/replay-target --exclude build/replay --exclude build/seed-evidence /verif/ $S/
git clone -q /repo $R
sed -i "s#path = \"/repo\"#path = \"$R\"#" $S/replay/Cargo.toml
cd $S
VERIF_REPO=$R VERIF_EVIDENCE_DIR=$S/build/thorough-evidence VERIF_SCRATCH=/tmp ./check all --tier thorough
echo "THOROUGH-SNAPSHOT-DONE rc=$?"
rm -rf $S $R
