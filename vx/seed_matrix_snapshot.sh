#!/bin/bash
# Runs vx/seed_matrix.py against snapshots of /verif and /repo (so that work can go on in both meanwhile) and copies
# seeded/RESULTS.md and the seeds' meta.json back.  Scratch copies live under /tmp and are removed at the end.
set -e
S=${VERIF_SNAP:-/tmp/vsnap}; R=${REPO_SNAP:-/tmp/rsnap}
rm -rf $S $R
rsync -a --exclude build/replay-target --exclude build/replay --exclude build/seed-evidence /verif/ $S/
git clone -q /repo $R
sed -i "s#path = \"/repo\"#path = \"$R\"#" $S/replay/Cargo.toml
sed -i "s#\"/repo\"\\]#\"$R\"]#g; s#\"-C\", \"/repo\"#\"-C\", \"$R\"#g" $S/vx/seed_matrix.py
cd $S
VERIF_REPO=$R python3 vx/seed_matrix.py "$@"
if [ $# -eq 0 ]; then cp $S/seeded/RESULTS.md /verif/seeded/RESULTS.md; fi
# copy back only the metas this run produced (all of them for a full run), so that parallel runs do not overwrite each other
for d in $S/seeded/*/; do id=$(basename $d)
  if [ $# -gt 0 ] && ! echo " $* " | grep -q " $id "; then continue; fi
  [ -f $d/meta.json ] && [ -d /verif/seeded/$id ] && cp $d/meta.json /verif/seeded/$id/meta.json
done
rm -rf $S $R
echo SNAPSHOT-MATRIX-DONE
