#!/bin/bash
# dev helper: apply a seeded change to /repo, run the given property checks, undo the change.
# usage: seedtest.sh <patch.diff> <Cxx> [Cyy ...]
d=$1; shift
cd /repo && git apply "$d" || { echo "patch does not apply"; exit 2; }
cd /verif
for p in "$@"; do
  out=$(VERIF_EVIDENCE_DIR=/verif/build/seed-evidence ./check $p 2>&1); rc=$?
  echo "== $p exit=$rc"
  echo "$out" | grep -E "VIOLATION|UNDECIDED|failed obligation|failing input" | cut -c1-400
done
cd /repo && git checkout -- . && git status --short | head -3
