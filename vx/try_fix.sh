#!/bin/bash
# dev helper: run the pinned suite on /repo's working tree; commit with the given message only if all tests pass.
# usage: try_fix.sh <message-file>
cd /repo || exit 2
out=$(/verif/run_baseline.sh 2>&1)
echo "$out" | tail -4
if echo "$out" | grep -q "109 tests run: 109 passed, 0 skipped"; then
  git commit -qa -F "$1" && echo "COMMITTED: $(git log --oneline | head -1)"
else
  echo "NOT COMMITTED: suite does not pass"; exit 1
fi
