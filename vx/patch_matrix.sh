#!/bin/bash
# Runs ./check (all claimed properties, or the ones given after a colon) against a list of patches on private snapshots of
# /verif and /repo, so that work can go on in both meanwhile.  Used for sub-agent-written benign refactorings and for
# seeds before they are stored.
# usage: patch_matrix.sh <tag> <name>=<patch>[:<prop>[,<prop>...]] ...
# output: one line per (patch, property): "<name> <prop> exit=<rc> [FALSE-ALARM|...]" on stdout, logs in /tmp/pm-<tag>-logs/
tag=$1; shift
S=/tmp/pm-$tag-verif; R=/tmp/pm-$tag-repo; L=/tmp/pm-$tag-logs
rm -rf $S $R $L; mkdir -p $L
rsync -a --exclude build/replay-target --exclude build/replay --exclude build/seed-evidence --exclude .git /verif/ $S/
git clone -q /repo $R
sed -i "s#path = \"/repo\"#path = \"$R\"#" $S/replay/Cargo.toml
cd $S
export VERIF_REPO=$R VERIF_EVIDENCE_DIR=$S/build/seed-evidence CARGO_NET_OFFLINE=true
mkdir -p $VERIF_EVIDENCE_DIR
for spec in "$@"; do
  name=${spec%%=*}; rest=${spec#*=}
  patch=${rest%%:*}; props=all
  [ "$rest" != "$patch" ] && props=$(echo ${rest#*:} | tr , ' ')
  git -C $R checkout -q -- . ; git -C $R clean -fdq
  git -C $R apply $patch || { echo "$name - patch-does-not-apply"; continue; }
  for p in $props; do
    ./check $p > $L/$name-$p.log 2>&1; rc=$?
    v=$(grep -c "^VIOLATION" $L/$name-$p.log)
    echo "$name $p exit=$rc violations=$v $(grep -E '^VIOLATION' $L/$name-$p.log | head -3 | tr '\n' ' ')"
  done
  git -C $R checkout -q -- . ; git -C $R clean -fdq
done
rm -rf $S $R
echo PATCH-MATRIX-DONE $tag
