#!/usr/bin/env python3
"""Runs every seeded change under /verif/seeded against the quick check of the property it breaks (and records which
check catches it) -- applies the patch to /repo, runs ./check, reverts.  Writes seeded/RESULTS.md and meta.json fields."""
import json, os, subprocess, sys, re
V = os.path.dirname(os.path.dirname(os.path.abspath(__file__)))
rows = []
only = [a for a in sys.argv[1:] if a != "--from-meta"]
FROM_META = "--from-meta" in sys.argv   # rebuild RESULTS.md from the detected_by records of an earlier run
for sid in sorted(os.listdir(os.path.join(V, "seeded"))):
    d = os.path.join(V, "seeded", sid)
    if not os.path.isdir(d) or (only and sid not in only) or not os.path.exists(os.path.join(d, "meta.json")):
        continue
    meta = json.load(open(os.path.join(d, "meta.json")))
    prop = meta["breaks_property"]
    if FROM_META:
        db = meta.get("detected_by") or {}
        rows.append((sid, prop, db.get("verdict", "not run"), db.get("failed_obligations", "")))
        continue
    assert subprocess.run(["git", "-C", "/repo", "status", "--porcelain", "--untracked-files=no"], capture_output=True, text=True).stdout.strip() == "", "repo not clean"
    ap = subprocess.run(["git", "-C", "/repo", "apply", os.path.join(d, "patch.diff")], capture_output=True, text=True)
    if ap.returncode != 0:
        rows.append((sid, prop, "patch no longer applies", "")); continue
    try:
        p = subprocess.run([os.path.join(V, "check"), prop], capture_output=True, text=True, cwd=V, timeout=3000,
                           env=dict(os.environ, VERIF_EVIDENCE_DIR=os.path.join(V, "build", "seed-evidence")))
    finally:
        subprocess.run(["git", "-C", "/repo", "checkout", "--", "."])
    out = p.stdout
    obl = re.findall(r"-- failed obligation (\S+) \[([^\]]*)\]", out)
    bounded = "bounded stand-in found a failing input" in out
    inp = re.findall(r"failing input: (.*)", out)
    verdict = {0: "MISSED (exit 0)", 1: "detected (VIOLATION)", 2: "undecided (exit 2)"}.get(p.returncode, str(p.returncode))
    how = "; ".join(sorted({f"{o} [{k}]" for o, k in obl})) or ("bounded stand-in on the real crate" if bounded else "")
    always = re.findall(r"-- bounded stand-in (\w+) found a failing input", out)
    if not how and always:
        how = "bounded stand-in on the real crate (no contract reaches the changed code): " + ", ".join(sorted(set(always)))
    if bounded and obl == []:
        how = "verifier could not process the changed code (" + "; ".join(re.findall(r"UNDECIDED property=\S+ reason=(.*)", out))[:160] + "); bounded stand-in found a failing input"
    meta["detected_by"] = {"check": f"./check {prop}", "exit": p.returncode, "verdict": verdict, "failed_obligations": how, "example_input": (inp[0][:300] if inp else None)}
    json.dump(meta, open(os.path.join(d, "meta.json"), "w"), indent=1)
    rows.append((sid, prop, verdict, how))
    print(sid, verdict, how[:150], flush=True)
if not only:
    with open(os.path.join(V, "seeded", "RESULTS.md"), "w") as fh:
        fh.write("# Seeded changes and the checks that catch them\n\nEach change was written by an independent sub-agent that saw only the property text and a scratch worktree; each was confirmed (pinned suite passes with it, its demonstration fails with it and passes without it) before being kept. `vx/seed_matrix.py` re-runs this table.\n\n| seed | property | outcome of `./check <property>` | failed obligation(s) |\n|---|---|---|---|\n")
        for r in rows:
            fh.write(f"| {r[0]} | {r[1]} | {r[2]} | {r[3]} |\n")
