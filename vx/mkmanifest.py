#!/usr/bin/env python3
"""Regenerates MANIFEST.json from spec/properties.json (single source of truth for what is claimed)."""
import json, os
VERIF = os.path.dirname(os.path.dirname(os.path.abspath(__file__)))
P = json.load(open(os.path.join(VERIF, "spec", "properties.json")))
titles = {}
for l in open(os.path.join(VERIF, "properties.jsonl")):
    d = json.loads(l); titles[d["id"]] = d["title"]
checks, na = [], []
for pid in sorted(titles):
    cfg = P.get(pid)
    if cfg is None:
        na.append({"property_id": pid, "reason": "not built yet in this round (see DESIGN.md section 0 for the plan)"})
        continue
    if cfg.get("not_applicable"):
        na.append({"property_id": pid, "reason": cfg["not_applicable"]})
        continue
    engines = (["vx"] if cfg.get("clusters") else []) + (["kx"] if cfg.get("kani") else [])
    checks.append({
        "property_id": pid,
        "quick_cmd": f"./check {pid} --tier quick",
        "thorough_cmd": f"./check {pid} --tier thorough",
        "evidence_file": f"evidence/{pid}.json",
        "replay_cmd_template": "./check replay {path}",
        "engine": "+".join(engines),
        "level_claimed": {"category": cfg.get("level", "proof"), "text": cfg["level_text"], "design_ref": cfg.get("design_ref", f"DESIGN.md section 4, {pid}")},
        "level_note": cfg["level_note"],
        "technique": cfg["technique"],
    })
m = {
    "version": 1,
    "setup_cmd": "./setup.sh",
    "hooks": {"guard": "kani", "enable": "none needed: engine vx copies function text out of /repo's working tree; engine kx builds a scratch copy of /repo with `cargo kani` (which sets cfg(kani)) and appends its harness module to the copy only",
              "baseline_off_cmd": "./run_baseline.sh", "source_commits": [], "add_only": True},
    "engines": [
        {"name": "vx", "path": "vx/", "serves_properties": [c["property_id"] for c in checks if "vx" in c["engine"]],
         "kind_free_text": "contract-based deductive verification: Verus 0.2026.09.13 on functions extracted mechanically (syn byte spans) from /repo at every run, contracts and lemmas in spec/*.vrs"},
        {"name": "kx", "path": "kx/", "serves_properties": [c["property_id"] for c in checks if "kx" in c["engine"]],
         "kind_free_text": "Kani 0.68 / CBMC function contracts and loop-free or fully unrolled harnesses injected into a scratch copy of the real crate"},
    ],
    "checks": checks,
    "not_applicable": na,
    "notes": "Exit codes of ./check: 0 held, 1 VIOLATION (a verifier-rejected obligation, or a disagreement of a labelled bounded stand-in with the statement-level oracle that replays on the real crate; with replay file), 2 undecided (machinery: anchor lost, unsupported construct, rlimit; or a `sufficient`-only structural float contract that no longer verifies while the ulp-bound oracle finds no failing input; or an obligation whose only failures are spliced loop invariants / proof hints, i.e. the proof script no longer fits the code while no contract clause failed, and the search on the real crate finds no failing input; or a trait impl that starts overriding a provided method outside the contracts) - exit 2 never prints VIOLATION. known_findings.json is the committed registry of genuine defects.",
}
json.dump(m, open(os.path.join(VERIF, "MANIFEST.json"), "w"), indent=1)
print("MANIFEST.json:", len(checks), "checks,", len(na), "not applicable")
