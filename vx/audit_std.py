#!/usr/bin/env python3
"""Audit of the assume_specification clauses in spec/*.vrs against the real std (run by setup.sh).

For every std function given an assumed Verus specification, a generated Rust program evaluates the real
function on a grid of boundary values; this script evaluates the assumed postcondition (transcribed
below, side by side with the Verus text) on the same values and compares.  It also checks that the set
of assume_specification targets in the spec files equals the set audited here, so a new assumed spec
cannot be added without an audit entry.  A mismatch is a machinery error (exit 2), never a verdict.
"""
import os
import re
import subprocess
import sys
import tempfile

HERE = os.path.dirname(os.path.abspath(__file__))
VERIF = os.path.dirname(HERE)


def tdiv(n, d):
    q = abs(n) // abs(d)
    return q if (n >= 0) == (d > 0) else -q


I16 = (-(2**15), 2**15 - 1)
I64 = (-(2**63), 2**63 - 1)
I128 = (-(2**127), 2**127 - 1)


def sat(v, rng):
    return max(rng[0], min(rng[1], v))


# name -> (rust type of args, rust call template, precondition(args), expected(args))
AUDIT = {
    "u64::div_euclid": (("u64", "u64"), "{0}.div_euclid({1})", lambda a, b: b != 0, lambda a, b: a // b),
    "u64::rem_euclid": (("u64", "u64"), "{0}.rem_euclid({1})", lambda a, b: b != 0, lambda a, b: a % b),
    "i128::div_euclid": (("i128", "i128"), "{0}.div_euclid({1})", lambda a, b: b > 0, lambda a, b: a // b),
    "i128::rem_euclid": (("i128", "i128"), "{0}.rem_euclid({1})", lambda a, b: b != 0 and not (a == I128[0] and b == -1), lambda a, b: a % abs(b)),
    "i16::saturating_sub": (("i16", "i16"), "{0}.saturating_sub({1})", lambda a, b: True, lambda a, b: sat(a - b, I16)),
    "i16::saturating_abs": (("i16",), "{0}.saturating_abs()", lambda a: True, lambda a: I16[1] if a == I16[0] else abs(a)),
    "i64::unsigned_abs": (("i64",), "{0}.unsigned_abs()", lambda a: True, lambda a: abs(a)),
    "i16::abs": (("i16",), "{0}.abs()", lambda a: a != I16[0], lambda a: abs(a)),
    "i64::abs": (("i64",), "{0}.abs()", lambda a: a != I64[0], lambda a: abs(a)),
    "i128::is_negative": (("i128",), "({0}.is_negative() as i128)", lambda a: True, lambda a: int(a < 0)),
    "i16::is_negative": (("i16",), "({0}.is_negative() as i128)", lambda a: True, lambda a: int(a < 0)),
    "i128::saturating_mul": (("i128", "i128"), "{0}.saturating_mul({1})", lambda a, b: True, lambda a, b: sat(a * b, I128)),
    "i128::saturating_div": (("i128", "i128"), "{0}.saturating_div({1})", lambda a, b: b != 0, lambda a, b: I128[1] if (a == I128[0] and b == -1) else tdiv(a, b)),
    "<i128ascore::convert::From<u64>>::from": (("u64",), "i128::from({0})", lambda a: True, lambda a: a),
    "<i64ascore::convert::From<u8>>::from": (("u8",), "i64::from({0})", lambda a: True, lambda a: a),
    "<i64ascore::convert::From<u16>>::from": (("u16",), "i64::from({0})", lambda a: True, lambda a: a),
    "<i64ascore::convert::From<u32>>::from": (("u32",), "i64::from({0})", lambda a: True, lambda a: a),
    "<i128ascore::convert::From<u32>>::from": (("u32",), "i128::from({0})", lambda a: True, lambda a: a),
    "i16::signum": (("i16",), "{0}.signum()", lambda a: True, lambda a: (a > 0) - (a < 0)),
    "i16::checked_neg": (("i16",), "{0}.checked_neg().map(|v| v as i128).unwrap_or(99999)", lambda a: True, lambda a: 99999 if a == I16[0] else -a),
    "u8::rem_euclid": (("u8", "u8"), "{0}.rem_euclid({1})", lambda a, b: b != 0, lambda a, b: a % b),
    "i8::rem_euclid": (("i8", "i8"), "{0}.rem_euclid({1})", lambda a, b: b > 0, lambda a, b: a % b),
    "i64::rem_euclid": (("i64", "i64"), "{0}.rem_euclid({1})", lambda a, b: b > 0, lambda a, b: a % b),
    "i64::div_euclid": (("i64", "i64"), "{0}.div_euclid({1})", lambda a, b: b > 0, lambda a, b: a // b),
    "i32::div_euclid": (("i32", "i32"), "{0}.div_euclid({1})", lambda a, b: b > 0, lambda a, b: a // b),
    "i32::rem_euclid": (("i32", "i32"), "{0}.rem_euclid({1})", lambda a, b: b > 0, lambda a, b: a % b),
    "u32::rem_euclid": (("u32", "u32"), "{0}.rem_euclid({1})", lambda a, b: b != 0, lambda a, b: a % b),
}

AUDIT["<OrderingasPartialEq>::eq"] = (("ord", "ord"), "(({0} == {1}) as i128)", lambda a, b: True, lambda a, b: int(a == b))
ORD = {-1: "core::cmp::Ordering::Less", 0: "core::cmp::Ordering::Equal", 1: "core::cmp::Ordering::Greater"}

RANGES = {"u8": (0, 255), "i8": (-128, 127), "u16": (0, 65535), "i16": I16, "u32": (0, 2**32 - 1), "i32": (-(2**31), 2**31 - 1),
          "u64": (0, 2**64 - 1), "i64": I64, "i128": I128}


def grid(ty):
    if ty == "ord":
        return [-1, 0, 1]
    lo, hi = RANGES[ty]
    base = {lo, lo + 1, lo + 2, hi, hi - 1, hi - 2, 0, 1, 2, 3, 5, 7, 10, 100, 3155760000000000000, 3155760000000000001,
            3155759999999999999, 86400000000000, 2**63, 2**63 - 1, 2**31, 2**15, 255, 127, 128}
    base |= {-v for v in list(base)}
    return sorted(v for v in base if lo <= v <= hi)


def targets_in_specs():
    found = set()
    for fn in sorted(os.listdir(os.path.join(VERIF, "spec"))):
        if fn.endswith(".vrs"):
            txt = open(os.path.join(VERIF, "spec", fn)).read()
            for m in re.finditer(r"assume_specification\s*(?:<[^>]*>)?\s*\[\s*([^\]]+?)\s*\]", txt):
                found.add("".join(m.group(1).split()))
    return found


def main():
    found = targets_in_specs()
    missing = found - set(AUDIT)
    if missing:
        print(f"audit_std: assumed std specifications without an audit entry: {sorted(missing)}", file=sys.stderr)
        return 2
    lines = ["fn main() {"]
    cases = []
    for name in sorted(found):
        tys, tmpl, pre, exp = AUDIT[name]
        grids = [grid(t) for t in tys]
        combos = [(a,) for a in grids[0]] if len(tys) == 1 else [(a, b) for a in grids[0] for b in grids[1]]
        for args in combos:
            if not pre(*args):
                continue
            lits = []
            for v, t in zip(args, tys):
                if t == "ord":
                    lits.append(ORD[v])
                    continue
                lo, hi = RANGES[t]
                lits.append(f"({t}::MIN)" if v == lo and lo < 0 else f"({v}{t})")
            idx = len(cases)
            cases.append((name, args, exp(*args)))
            lines.append(f'    println!("{idx}|{{}}", ({tmpl.format(*lits)}) as i128);')
    lines.append("}")
    with tempfile.TemporaryDirectory() as td:
        src = os.path.join(td, "audit.rs")
        open(src, "w").write("#![allow(overflowing_literals, unused_parens, arithmetic_overflow)]\n" + "\n".join(lines) + "\n")
        p = subprocess.run(["rustc", "-O", "-o", os.path.join(td, "audit"), src], capture_output=True, text=True)
        if p.returncode != 0:
            print("audit_std: cannot compile audit program:\n" + p.stderr[-3000:], file=sys.stderr)
            return 2
        out = subprocess.run([os.path.join(td, "audit")], capture_output=True, text=True)
        if out.returncode != 0:
            print("audit_std: audit program failed:\n" + out.stderr[-2000:], file=sys.stderr)
            return 2
    bad = 0
    for ln in out.stdout.splitlines():
        i, v = ln.split("|")
        name, args, want = cases[int(i)]
        got = int(v)
        # results of unsigned 64-bit functions were cast through i128 and keep their value
        if got != want:
            bad += 1
            if bad < 10:
                print(f"audit_std: MISMATCH {name}{args}: std = {got}, assumed spec = {want}", file=sys.stderr)
    if bad:
        return 2
    print(f"audit_std: {len(found)} assumed std specifications, {len(cases)} boundary evaluations, all agree with std")
    return 0


if __name__ == "__main__":
    sys.exit(main())
