#!/usr/bin/env python3
"""Audit of the assume_specification clauses in spec/*.vrs against the real std (run by setup.sh).

For every std function given an assumed Verus specification, a generated Rust program evaluates the real
function on a grid of boundary values; this script evaluates the assumed postcondition (transcribed
below, side by side with the Verus text) on the same values and compares.  It also checks that the set
of assume_specification targets in the spec files equals the set audited here, so a new assumed spec
cannot be added without an audit entry.  A mismatch is a machinery error (exit 2), never a verdict.
"""
import os
import re
import subprocess
import sys
import tempfile

HERE = os.path.dirname(os.path.abspath(__file__))
VERIF = os.path.dirname(HERE)


sys.path.insert(0, HERE)
import stdspecs  # noqa: E402

I128 = (-(2**127), 2**127 - 1)
AUDIT = {"".join(e["name"].split()): (e["tys"], e["call"], e["pre"], e["exp"]) for e in stdspecs.entries()}
ORD = {-1: "core::cmp::Ordering::Less", 0: "core::cmp::Ordering::Equal", 1: "core::cmp::Ordering::Greater"}

RANGES = {t: stdspecs.rng(t) for t in list(stdspecs.SIGNED) + list(stdspecs.UNSIGNED)}


def grid(ty):
    if ty == "ord":
        return [-1, 0, 1]
    lo, hi = RANGES[ty]
    base = {lo, lo + 1, lo + 2, hi, hi - 1, hi - 2, 0, 1, 2, 3, 5, 7, 10, 100, 3155760000000000000, 3155760000000000001,
            3155759999999999999, 86400000000000, 2**63, 2**63 - 1, 2**31, 2**15, 255, 127, 128}
    base |= {-v for v in list(base)}
    return sorted(v for v in base if lo <= v <= hi)


def targets_in_specs():
    found = set()
    for fn in sorted(os.listdir(os.path.join(VERIF, "spec"))):
        if fn.endswith(".vrs"):
            txt = open(os.path.join(VERIF, "spec", fn)).read()
            for m in re.finditer(r"assume_specification\s*(?:<[^>]*>)?\s*\[\s*([^\]]+?)\s*\]", txt):
                found.add("".join(m.group(1).split()))
    return found


def kani_file_current():
    """kx/harness/std_specs.rs (Kani proofs of the same clauses for the types of at most 64 bits) must be the text the
    generator produces now, and the group in kx/groups.json must list exactly its harnesses"""
    import json
    text, names = stdspecs.kani_text()
    path = os.path.join(VERIF, "kx", "harness", "std_specs.rs")
    if not os.path.exists(path) or open(path).read() != text:
        print("audit_std: kx/harness/std_specs.rs is stale; regenerate with `python3 vx/stdspecs.py --kani > kx/harness/std_specs.rs`", file=sys.stderr)
        return False
    grp = json.load(open(os.path.join(VERIF, "kx", "groups.json"))).get("std_specs", {})
    if sorted(h["name"] for h in grp.get("harnesses", [])) != sorted(names):
        print("audit_std: group std_specs in kx/groups.json does not list the generated harnesses", file=sys.stderr)
        return False
    return True


def main():
    if not kani_file_current():
        return 2
    found = targets_in_specs() | set(AUDIT)
    missing = found - set(AUDIT)
    if missing:
        print(f"audit_std: assumed std specifications without an audit entry: {sorted(missing)}", file=sys.stderr)
        return 2
    lines = ["fn main() {"]
    cases = []
    decls = []
    for k, name in enumerate(sorted(found)):
        tys, tmpl, pre, exp = AUDIT[name]
        grids = [grid(t) for t in tys]
        combos = [(a,) for a in grids[0]] if len(tys) == 1 else [(a, b) for a in grids[0] for b in grids[1]]
        rows = []
        for args in combos:
            if not pre(*args):
                continue
            lits = []
            for v, t in zip(args, tys):
                if t == "ord":
                    lits.append(ORD[v])
                    continue
                lo, hi = RANGES[t]
                lits.append(f"{t}::MIN" if v == lo and lo < 0 else f"{v}{t}")
            rows.append("(" + ", ".join(lits) + ("," if len(lits) == 1 else "") + ")")
            cases.append((name, args, exp(*args)))
        rty = "(" + ", ".join("core::cmp::Ordering" if t == "ord" else t for t in tys) + ("," if len(tys) == 1 else "") + ")"
        decls.append(f"static C{k}: [{rty}; {len(rows)}] = [{', '.join(rows)}];")
        call = tmpl.format("c.0", "c.1")
        lines.append(f'    for c in C{k}.iter() {{ println!("{{}}", ({call}) as i128); }}')
    lines.append("}")
    with tempfile.TemporaryDirectory() as td:
        src = os.path.join(td, "audit.rs")
        open(src, "w").write("#![allow(overflowing_literals, unused_parens, arithmetic_overflow)]\n" + "\n".join(decls) + "\n" + "\n".join(lines) + "\n")
        p = subprocess.run(["rustc", "--edition", "2021", "-C", "opt-level=0", "-C", "overflow-checks=off", "-C", "debuginfo=0", "-o", os.path.join(td, "audit"), src], capture_output=True, text=True)
        if p.returncode != 0:
            print("audit_std: cannot compile audit program:\n" + p.stderr[-3000:], file=sys.stderr)
            return 2
        out = subprocess.run([os.path.join(td, "audit")], capture_output=True, text=True)
        if out.returncode != 0:
            print("audit_std: audit program failed:\n" + out.stderr[-2000:], file=sys.stderr)
            return 2
    bad = 0
    outl = out.stdout.splitlines()
    if len(outl) != len(cases):
        print(f"audit_std: {len(outl)} results for {len(cases)} cases", file=sys.stderr)
        return 2
    for i, v in enumerate(outl):
        name, args, want = cases[i]
        got = int(v)
        if want > I128[1]:
            want -= 2**128
        # results of unsigned 64-bit functions were cast through i128 and keep their value
        if got != want:
            bad += 1
            if bad < 10:
                print(f"audit_std: MISMATCH {name}{args}: std = {got}, assumed spec = {want}", file=sys.stderr)
    if bad:
        return 2
    print(f"audit_std: {len(found)} assumed std specifications, {len(cases)} boundary evaluations, all agree with std")
    return 0


if __name__ == "__main__":
    sys.exit(main())
