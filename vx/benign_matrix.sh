#!/bin/bash
# re-runs the false-alarm regression set of seeded/benign (applies each patch to /repo, runs the check, reverts)
cd /verif
for b in b1_rename_local:C01 b2_reorder_lets:C02 b3_min_match:C03 b4_tow_rem:C20 b5_next_flip:C15 b6_is_leap_reorder:C08 b7_epoch_floor_local:C14 b8_match_arm_order:C08 b9_floor_div_mul:C14 b10_iflet_normalize:C02 b11_extract_helper:C02 b12_tai_days_div:C17 b13_with_hms_strict_locals:C16 b14_at_noon_local:C16 b15_from_unix_seconds_via_duration:C17 b16_to_seconds_div:C18 b17_duration_display_loop:C11 b18_day_of_year_commute:C20; do
  n=${b%%:*}; p=${b##*:}
  [ -n "$ONLY" ] && ! echo " $ONLY " | grep -q " $n " && continue
  git -C /repo apply /verif/seeded/benign/$n.diff || { echo "$n: patch does not apply"; continue; }
  VERIF_EVIDENCE_DIR=/verif/build/seed-evidence ./check $p > /tmp/benign_$n.log 2>&1; rc=$?
  git -C /repo checkout -- .
  echo "$n $p exit=$rc $( [ $rc = 1 ] && echo FALSE-ALARM )"
done
# second part: refactorings written by independent sub-agents (seeded/benign/agents/*.diff), each run against ALL claimed
# properties; set AGENTS=0 to skip, ONLY="B3r1 ..." to select
if [ "${AGENTS:-1}" = 1 ]; then
  for f in /verif/seeded/benign/agents/*.diff; do
    n=$(basename $f .diff)
    [ -n "$ONLY" ] && ! echo " $ONLY " | grep -q " $n " && continue
    git -C /repo apply $f || { echo "$n: patch does not apply"; continue; }
    VERIF_EVIDENCE_DIR=/verif/build/seed-evidence ./check all > /tmp/benign_$n.log 2>&1; rc=$?
    git -C /repo checkout -- .
    echo "$n all exit=$rc $( [ $rc = 1 ] && echo FALSE-ALARM )"
  done
fi
