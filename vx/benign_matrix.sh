#!/bin/bash
# re-runs the false-alarm regression set of seeded/benign (applies each patch to /repo, runs the check, reverts)
cd /verif
for b in b1_rename_local:C01 b2_reorder_lets:C02 b3_min_match:C03 b4_tow_rem:C20 b5_next_flip:C15 b6_is_leap_reorder:C08 b7_epoch_floor_local:C14 b8_match_arm_order:C08 b9_floor_div_mul:C14 b10_iflet_normalize:C02 b11_extract_helper:C02; do
  n=${b%%:*}; p=${b##*:}
  git -C /repo apply seeded/benign/$n.diff || { echo "$n: patch does not apply"; continue; }
  VERIF_EVIDENCE_DIR=/verif/build/seed-evidence ./check $p > /tmp/benign_$n.log 2>&1; rc=$?
  git -C /repo checkout -- .
  echo "$n $p exit=$rc $( [ $rc = 1 ] && echo FALSE-ALARM )"
done
