#!/bin/bash
# Confirms a sub-agent's seeded change in its scratch worktree and, if confirmed, stores it under /verif/seeded/<id>/.
# usage: confirm_seed.sh <worktree> <variant letter> <seed-id> <property>
wt=$1; v=$2; id=$3; prop=$4
export CARGO_NET_OFFLINE=true CARGO_TARGET_DIR=/tmp/seed-target
cd $wt || exit 2
git checkout -q -- . ; rm -f tests/seed_demo.rs
git apply seed/$v.diff || { echo "$id: patch does not apply"; exit 1; }
suite=$(/verif/run_baseline.sh $wt 2>&1 | grep -E "tests run:" | tail -1)
cp seed/${v}_demo.rs tests/seed_demo.rs
with=$(cargo test --offline --test seed_demo 2>&1 | grep -E "^test result" | tail -1)
git checkout -q -- .
without=$(cargo test --offline --test seed_demo 2>&1 | grep -E "^test result" | tail -1)
rm -f tests/seed_demo.rs
echo "$id suite_with_change: $suite"
echo "$id demo_with_change: $with"
echo "$id demo_without_change: $without"
if echo "$suite" | grep -q "109 passed" && echo "$with" | grep -q "FAILED" && echo "$without" | grep -q "test result: ok"; then
  mkdir -p /verif/seeded/$id
  cp seed/$v.diff /verif/seeded/$id/patch.diff
  cp seed/${v}_demo.rs /verif/seeded/$id/demo.rs
  python3 - "$id" "$prop" "$v" "$wt" "$suite" "$with" "$without" <<'PY'
import json, sys, re
id, prop, v, wt, suite, w, wo = sys.argv[1:8]
notes = open(f"{wt}/seed/notes.md").read()
json.dump({"id": id, "breaks_property": prop, "variant": v, "source": "independent sub-agent given only the property text and a scratch worktree",
           "needs_to_manifest": "see notes", "notes_md": notes[:6000],
           "confirmed": {"pinned_suite_with_change": suite.strip(), "demo_with_change": w.strip(), "demo_without_change": wo.strip(),
                         "how": "vx/confirm_seed.sh in the scratch worktree: git apply patch; run_baseline.sh (109 pinned tests); cargo test --test seed_demo with and without the change"}},
          open(f"/verif/seeded/{id}/meta.json", "w"), indent=1)
PY
  echo "$id CONFIRMED"
else
  echo "$id NOT CONFIRMED"
fi
