#!/bin/bash
# setup_cmd of MANIFEST.json: builds the framework from files on disk only (offline).
set -e
cd "$(dirname "$0")"
export CARGO_NET_OFFLINE=true
mkdir -p build/cache build/gen build/replay evidence
echo "[setup] building vx-extract (syn-based indexer)"
(cd vx/extract && cargo build --release --offline --quiet)
echo "[setup] building the replay crate against /repo"
(cd replay && cp -f /repo/Cargo.lock Cargo.lock 2>/dev/null || true; CARGO_TARGET_DIR=../build/replay-target cargo build --offline --quiet)
echo "[setup] audit of the assumed std specifications against the real std"
python3 vx/audit_std.py
echo "[setup] Verus canary"
python3 - <<'PY'
import sys
sys.path.insert(0, "vx")
import driver
r = driver.run_cluster("canary", use_cache=False)
names = sorted({f["name"] for f in r["failures"]})
assert r["status"] == "ok", r["reason"]
assert names == ["canary_false_lemma", "canary_off_by_one"], names
print("[setup] canary ok: Verus rejects exactly", names)
PY
if [ -f kx/setup_kani.sh ]; then bash kx/setup_kani.sh; fi
echo "[setup] done"
