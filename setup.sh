#!/bin/bash
# setup_cmd of MANIFEST.json: builds the framework from files on disk only (offline).
set -e
cd "$(dirname "$0")"
export CARGO_NET_OFFLINE=true
mkdir -p build/cache build/gen build/replay evidence
echo "[setup] building vx-extract (syn-based indexer)"
(cd vx/extract && cargo build --release --offline --quiet)
echo "[setup] building the replay crate against /repo"
(cd replay && cp -f /repo/Cargo.lock Cargo.lock 2>/dev/null || true; CARGO_TARGET_DIR=../build/replay-target cargo build --offline --quiet)
echo "[setup] every replay operation named by the specs exists"
python3 - <<'PY'
import json, subprocess, sys
ops = set(l.split()[0] for l in subprocess.run(["build/replay-target/debug/vx-replay", "ops"], capture_output=True, text=True).stdout.splitlines() if l.strip())
used = set(o for v in json.load(open("spec/ops_map.json")).values() for o in v)
for v in json.load(open("spec/properties.json")).values():
    used |= set(v.get("fallback_ops", [])) | set(v.get("bounded_ops", []))
for g in json.load(open("kx/groups.json")).values():
    for h in g["harnesses"]:
        used |= set(h.get("falsify_ops", []))
missing = sorted(used - ops)
if missing:
    sys.exit(f"[setup] replay operations referenced but not defined in replay/src: {missing}")
print(f"[setup] {len(used)} referenced operations, all defined ({len(ops)} in the replay crate)")
PY
echo "[setup] audit of the assumed std specifications against the real std"
python3 vx/audit_std.py
echo "[setup] Verus canary"
python3 - <<'PY'
import sys
sys.path.insert(0, "vx")
import driver
r = driver.run_cluster("canary", use_cache=False)
names = sorted({f["name"] for f in r["failures"]})
assert r["status"] == "ok", r["reason"]
assert names == ["canary_false_lemma", "canary_off_by_one"], names
print("[setup] canary ok: Verus rejects exactly", names)
PY
if [ -f kx/setup_kani.sh ]; then bash kx/setup_kani.sh; fi
echo "[setup] done"
